"""Locksets and the lock-order graph (component E).

Lock classes are named by the guarded data type (World.lock_class_of_data). A forward dataflow
tracks which guard-owning locals are live; may-held (union) feeds order edges and
forbidden-under-lock rules, must-held (intersection) feeds "this site is protected by L".
"""
import collections

from . import effects
from .core import term_path
from .vfg import place_of


def _classes_of_type(world, ty_ix):
    out = set()
    for mode, data in world.prog.guards_in_type(ty_ix):
        if data is None:
            continue
        out.add((world.lock_class_of_data(data), "r" if mode == "read" else "w"))
    return frozenset(out)


class BodyLocks(object):
    """Intraprocedural guard tracking for one body (relative to an empty entry lockset)."""

    def __init__(self, world, body):
        self.world = world
        self.body = body
        prog = world.prog
        self.guard_locals = {}
        for l, t in enumerate(body.locals):
            cs = _classes_of_type(world, t)
            if cs:
                self.guard_locals[l] = cs
        self.may_in = {}
        self.must_in = {}
        self.drop_flags = self._find_drop_flags()
        self.acquired_here = []       # (bb, classes, blocking)
        if self.guard_locals or True:
            self._solve()

    def _find_drop_flags(self):
        """switch blocks on a bool local whose non-zero edge leads to drop(guard local): the zero edge
        means "already moved out / dropped"."""
        body = self.body
        flags = {}
        for bb in body.normal_blocks():
            t = body.blocks[bb]["term"]
            if t["k"] != "switch":
                continue
            pl = place_of(t["discr"])
            if pl is None or pl["p"]:
                continue
            ty = body.prog.types[body.locals[pl["l"]]]
            if ty.get("s") != "bool":
                continue
            listed = dict((v, b) for v, b in t["targets"])
            if 0 not in listed:
                continue
            nz = t["otherwise"]
            # follow gotos
            cur = nz
            for _ in range(4):
                tt = body.blocks[cur]["term"]
                if tt["k"] == "goto":
                    cur = tt["t"]
                else:
                    break
            tt = body.blocks[cur]["term"]
            if tt["k"] != "drop" or tt["place"]["l"] not in self.guard_locals:
                continue
            # a drop flag is a compiler temporary that is only ever assigned boolean literals, and
            # the flagged drop rejoins the path that skipped it
            only_consts = True
            for (dbb, j, rv) in body.assignments().get(pl["l"], []):
                if j == "term" or rv["k"] != "use" or "const" not in rv["op"]:
                    only_consts = False
            if pl["l"] in body.names or not only_consts:
                continue
            if tt["t"] != listed[0]:
                continue
            flags[(bb, listed[0])] = tt["place"]["l"]
        return flags

    def _transfer_block(self, bb, may, must):
        """Applies statements of bb; returns state before the terminator."""
        body = self.body
        may = dict(may)
        must = dict(must)
        for s in body.stmts(bb):
            k = s["k"]
            if k == "assign":
                lhs = s["lhs"]
                rv = s["rv"]
                moved = []
                if rv["k"] == "use":
                    pl = rv["op"].get("move")
                    if pl is not None and not pl["p"] and pl["l"] in self.guard_locals:
                        moved.append(pl["l"])
                    elif pl is not None and pl["p"] and pl["l"] in self.guard_locals and not lhs["p"] and \
                            lhs["l"] in self.guard_locals:
                        # a guard moved out of a tuple/struct of guards (`let (a, b) = lock_both()`): the part named by
                        # the destination's type changes owner
                        part = self.guard_locals[lhs["l"]]
                        src, dst = pl["l"], lhs["l"]
                        if src in may:
                            got = may[src] & part
                            if got:
                                may[dst] = may.get(dst, frozenset()) | got
                                rest = may[src] - part
                                if rest:
                                    may[src] = rest
                                else:
                                    may.pop(src)
                        if src in must:
                            got = must[src] & part
                            if got:
                                must[dst] = must.get(dst, frozenset()) | got
                                rest = must[src] - part
                                if rest:
                                    must[src] = rest
                                else:
                                    must.pop(src)
                elif rv["k"] == "agg":
                    for op in rv["ops"]:
                        pl = op.get("move")
                        if pl is not None and not pl["p"] and pl["l"] in self.guard_locals:
                            moved.append(pl["l"])
                if moved:
                    dst = lhs["l"]
                    for m in moved:
                        if m in may:
                            may[dst] = may.get(dst, frozenset()) | may.pop(m)
                        if m in must:
                            must[dst] = must.get(dst, frozenset()) | must.pop(m)
            elif k == "dead":
                may.pop(s["l"], None)
                must.pop(s["l"], None)
        return may, must

    def _solve(self):
        body = self.body
        world = self.world
        blocks = sorted(body.reachable_blocks())
        may_in = {0: {}}
        must_in = {0: {}}
        work = collections.deque([0])
        inq = {0}
        self.before_term = {}
        while work:
            bb = work.popleft()
            inq.discard(bb)
            may, must = self._transfer_block(bb, may_in[bb], must_in.get(bb, {}))
            self.before_term[bb] = (may, must)
            t = body.blocks[bb]["term"]
            k = t["k"]
            outs = {}
            if k == "call":
                may2, must2 = dict(may), dict(must)
                # arguments moved into the callee
                for a in t["args"]:
                    pl = a.get("move")
                    if pl is not None and not pl["p"] and pl["l"] in self.guard_locals:
                        may2.pop(pl["l"], None)
                        must2.pop(pl["l"], None)
                dest = t["dest"]
                if not dest["p"] and dest["l"] in self.guard_locals:
                    p = term_path(t)
                    cs = self.guard_locals[dest["l"]]
                    blocking = True
                    if p in effects.LOCK_ACQ:
                        blocking = effects.LOCK_ACQ[p][1]
                    # a call that receives a guard and returns one (map, downgrade...) transfers it
                    passed = False
                    for a in t["args"]:
                        pl = a.get("move")
                        if pl is not None and not pl["p"] and pl["l"] in self.guard_locals:
                            passed = True
                    may2[dest["l"]] = cs
                    must2[dest["l"]] = cs
                    if not passed:
                        self.acquired_here.append((bb, cs, blocking, p))
                if t["t"] is not None:
                    outs[t["t"]] = (may2, must2)
            elif k == "drop":
                may2, must2 = dict(may), dict(must)
                l = t["place"]["l"]
                if l in self.guard_locals:
                    may2.pop(l, None)
                    must2.pop(l, None)
                outs[t["t"]] = (may2, must2)
            else:
                for s in body.succs(bb):
                    may2, must2 = may, must
                    fl = self.drop_flags.get((bb, s))
                    if fl is not None:
                        may2, must2 = dict(may), dict(must)
                        may2.pop(fl, None)
                        must2.pop(fl, None)
                    outs[s] = (may2, must2)
            for s, (m1, m2) in outs.items():
                changed = False
                if s not in may_in:
                    may_in[s] = dict(m1)
                    must_in[s] = dict(m2)
                    changed = True
                else:
                    cur = may_in[s]
                    for l, cs in m1.items():
                        if l not in cur or not cs <= cur[l]:
                            cur[l] = cur.get(l, frozenset()) | cs
                            changed = True
                    curm = must_in[s]
                    for l in list(curm.keys()):
                        if l not in m2:
                            del curm[l]
                            changed = True
                        elif curm[l] != (curm[l] & m2[l]):
                            curm[l] = curm[l] & m2[l]
                            changed = True
                if changed and s not in inq:
                    work.append(s)
                    inq.add(s)
        self.may_in = may_in
        self.must_in = must_in

    def held_before_term(self, bb):
        """(may, must) sets of (class, mode) held just before the terminator of bb."""
        st = self.before_term.get(bb)
        if st is None:
            return None
        may, must = st
        m1 = frozenset().union(*may.values()) if may else frozenset()
        m2 = frozenset().union(*must.values()) if must else frozenset()
        return m1, m2

    def held_locals_before_term(self, bb):
        return self.before_term.get(bb)


class LockAnalysis(object):
    def __init__(self, world):
        self.world = world
        self.prog = world.prog
        self.bl = {}
        for b in self.prog.bodies.values():
            self.bl[b.path] = BodyLocks(world, b)
        self._acquires = {}
        self._compute_acquires()
        self.entry_may = {}
        self.entry_must = {}
        self.entry_witness = {}
        self._compute_entries()
        self.edges = collections.defaultdict(list)
        self._compute_edges()

    # ---- summaries ----
    def _site_targets(self, site):
        prog = self.prog
        if site.kind == "call":
            return [t for t, how in prog.call_targets(site)] + self._fmt_targets(site)
        return [d[1] for d in prog.drop_targets(site.term["ty"]) if d[0] == "local"]

    # Formatting escapes.  A value of a crate type handed to extern generic code by its Debug/Display bound
    # (`tracing::field::debug(&self)`, `fmt::rt::Argument::new_debug(&x)`) or coerced to `&dyn Debug` may have its
    # `fmt` called by that code - with whatever locks are held at that point.  Only the lock analysis needs this: a
    # hand-written `fmt` that takes a lock is an acquisition like any other.
    FMT_TRAITS = ("std::fmt::Debug", "std::fmt::Display", "std::fmt::LowerHex", "std::fmt::UpperHex")

    def _fmt_impls(self):
        c = self.__dict__.get("_fmt_impl_cache")
        if c is None:
            c = {}
            for b in self.prog.bodies.values():
                if b.raw.get("impl_trait") in self.FMT_TRAITS and b.raw.get("impl_self"):
                    # only hand-written impls can take locks (a derive only forwards to its fields - which are found
                    # through their own types)
                    d = b.raw["impl_self"].split("<")[0]
                    c.setdefault(d, []).append(b)
            self.__dict__["_fmt_impl_cache"] = c
        return c

    def _local_adts_in(self, ty_ix, depth=0):
        prog = self.prog
        out = set()
        if not isinstance(ty_ix, int) or depth > 6:
            return out
        t = prog.types[ty_ix]
        k = t.get("k")
        if k == "ref" or k == "ptr":
            return self._local_adts_in(t.get("in"), depth + 1)
        if k == "adt":
            if t.get("def") in prog.adts and t.get("def") in self._fmt_impls():
                out.add(t["def"])
            for a in t.get("args", []):
                out |= self._local_adts_in(a, depth + 1)
        elif k in ("tuple", "array", "slice"):
            for a in t.get("elems", []) or ([t.get("in")] if t.get("in") is not None else []):
                out |= self._local_adts_in(a, depth + 1)
        return out

    def _fmt_targets(self, site):
        prog = self.prog
        c = site.callee or {}
        if c.get("local") or c.get("rlocal") or prog.local_target(site) is not None:
            return []
        adts = set()
        # (i) extern generic code of the formatting family, instantiated with a crate type
        path = (c.get("path") or "")
        low = path.lower()
        if any(x in low for x in ("fmt::", "::debug", "::display", "field::", "to_string", "as_display", "as_dyn_error")) \
                or low.startswith(("std::fmt", "core::fmt", "alloc::fmt")):
            for g in c.get("gargs", []):
                adts |= self._local_adts_in(g)
        # (ii) values coerced to a formatting trait object in the block that ends in this call
        for st in site.body.stmts(site.bb):
            if st["k"] == "assign" and st["rv"]["k"] == "cast" and "Unsize" in st["rv"].get("ck", ""):
                to = prog.ty_str(st["rv"]["to"]) if isinstance(st["rv"].get("to"), int) else ""
                if "dyn " in to and any(x in to for x in ("Debug", "Display", "tracing::Value", "Error")):
                    adts |= self._local_adts_in(st["rv"]["from"])
        out = []
        for d in sorted(adts):
            out += self._fmt_impls().get(d, [])
        return out

    def _compute_acquires(self):
        prog = self.prog
        direct = {}
        for p, bl in self.bl.items():
            s = set()
            for (bb, cs, blocking, path) in bl.acquired_here:
                if path in effects.LOCK_ACQ:
                    for c in cs:
                        s.add((c, blocking))
            direct[p] = s
        acq = {p: set(s) for p, s in direct.items()}
        changed = True
        callees = {}
        for b in prog.bodies.values():
            callees[b.path] = set()
            for site in b.sites():
                for t in self._site_targets(site):
                    callees[b.path].add(t.path)
        while changed:
            changed = False
            for p in acq:
                for c in callees[p]:
                    before = len(acq[p])
                    acq[p] |= acq[c]
                    if len(acq[p]) != before:
                        changed = True
        self._acquires = acq
        self.direct_acquires = direct

    def acquires(self, body_path):
        return self._acquires.get(body_path, set())

    def roots(self):
        prog = self.prog
        roots = [b for b in prog.bodies.values() if b.reachable and not b.is_closure]
        roots += [cl for (_, cl) in prog.spawned_closures()]
        return roots

    def _compute_entries(self):
        prog = self.prog
        roots = self.roots()
        may = {r.path: frozenset() for r in roots}
        must = {r.path: frozenset() for r in roots}
        rootset = set(may)
        wit = {}
        work = collections.deque(may.keys())
        while work:
            p = work.popleft()
            body = prog.bodies[p]
            bl = self.bl[p]
            for site in body.sites():
                held = bl.held_before_term(site.bb)
                if held is None:
                    continue
                m1 = may[p] | held[0]
                m2 = must.get(p, frozenset()) | held[1]
                # a guard moved into the callee is still held while the callee runs
                for tgt in self._site_targets(site):
                    q = tgt.path
                    changed = False
                    if q not in may:
                        may[q] = m1
                        must[q] = m2
                        wit[q] = (p, site.bb)
                        changed = True
                    else:
                        if not m1 <= may[q]:
                            may[q] = may[q] | m1
                            changed = True
                        if q not in rootset:
                            new = must[q] & m2
                            if new != must[q]:
                                must[q] = new
                                changed = True
                    if changed:
                        work.append(q)
        self.entry_may = may
        self.entry_must = must
        self.entry_witness = wit

    def may_held_at(self, site):
        p = site.body.path
        held = self.bl[p].held_before_term(site.bb)
        if held is None or p not in self.entry_may:
            return None
        return self.entry_may[p] | held[0]

    def must_held_at(self, site):
        p = site.body.path
        held = self.bl[p].held_before_term(site.bb)
        if held is None or p not in self.entry_must:
            return None
        return self.entry_must[p] | held[1]

    def must_held_classes(self, site, mode=None):
        h = self.must_held_at(site)
        if h is None:
            return None
        return set(c for c, m in h if mode is None or m == mode or (mode == "r" and m == "w"))

    def _compute_edges(self):
        """L -> M whenever M is acquired (here or in something called from here) while L is may-held."""
        prog = self.prog
        for p, bl in self.bl.items():
            if p not in self.entry_may:
                continue
            body = prog.bodies[p]
            for (bb, cs, blocking, path) in bl.acquired_here:
                if path not in effects.LOCK_ACQ:
                    continue
                held = bl.held_before_term(bb)
                if held is None:
                    continue
                local_held = held[0]
                ctx_held = self.entry_may[p]
                for (m, mm) in cs:
                    for (l, lm) in local_held | ctx_held:
                        self.edges[(l, m)].append({
                            "acquire": "%s at %s:%d" % (path, body.file, body.blocks[bb]["span"]["line"]),
                            "in": p, "held": l, "held_mode": lm, "acq_mode": mm, "blocking": blocking,
                            "held_from": "same body" if (l, lm) in local_held else "caller context",
                        })

    def acquisition_sites(self):
        out = []
        for p, bl in self.bl.items():
            body = self.prog.bodies[p]
            for (bb, cs, blocking, path) in bl.acquired_here:
                if path in effects.LOCK_ACQ:
                    out.append((body, bb, cs, blocking, path))
        return out

    def returns_holding(self):
        out = {}
        for b in self.prog.bodies.values():
            cs = _classes_of_type(self.world, b.locals[0])
            if cs:
                out[b.path] = cs
        return out
