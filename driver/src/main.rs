// cassfacts: rustc_private driver that dumps the type-checked program (MIR + type facts) of one
// crate as a single JSON fact file. It is injected with RUSTC_WORKSPACE_WRAPPER under
// `cargo +nightly check`; every other crate is compiled unchanged.
//
// env: CASSFACTS_CRATE  crate name to dump (default "cassadilia")
//      CASSFACTS_OUT    output file (required for the dumped crate)
#![feature(rustc_private)]
#![allow(clippy::all)]

extern crate rustc_abi;
extern crate rustc_data_structures;
extern crate rustc_driver;
extern crate rustc_hir;
extern crate rustc_interface;
extern crate rustc_middle;
extern crate rustc_session;
extern crate rustc_span;

use std::collections::HashMap;
use std::fmt::Write as _;

use rustc_hir::def::DefKind;
use rustc_hir::def_id::{DefId, LOCAL_CRATE};
use rustc_middle::mir::{
    self, AggregateKind, BasicBlock, Body, BorrowKind, CastKind, Const, Operand, Place, PlaceElem,
    Rvalue, StatementKind, TerminatorKind, UnwindAction,
};
use rustc_middle::ty::{self, Instance, InstanceKind, Ty, TyCtxt, TyKind, TypingEnv};
use rustc_span::Span;

// ---------------------------------------------------------------------------------------------
// minimal JSON value
// ---------------------------------------------------------------------------------------------
enum J {
    Null,
    Bool(bool),
    Num(i128),
    Str(String),
    Arr(Vec<J>),
    Obj(Vec<(&'static str, J)>),
}

fn s(x: impl Into<String>) -> J {
    J::Str(x.into())
}
fn n(x: impl TryInto<i128>) -> J {
    J::Num(x.try_into().ok().unwrap_or(-1))
}

impl J {
    fn write(&self, out: &mut String) {
        match self {
            J::Null => out.push_str("null"),
            J::Bool(b) => out.push_str(if *b { "true" } else { "false" }),
            J::Num(v) => {
                let _ = write!(out, "{v}");
            }
            J::Str(st) => {
                out.push('"');
                for c in st.chars() {
                    match c {
                        '"' => out.push_str("\\\""),
                        '\\' => out.push_str("\\\\"),
                        '\n' => out.push_str("\\n"),
                        '\r' => out.push_str("\\r"),
                        '\t' => out.push_str("\\t"),
                        c if (c as u32) < 0x20 => {
                            let _ = write!(out, "\\u{:04x}", c as u32);
                        }
                        c => out.push(c),
                    }
                }
                out.push('"');
            }
            J::Arr(v) => {
                out.push('[');
                for (i, x) in v.iter().enumerate() {
                    if i > 0 {
                        out.push(',');
                    }
                    x.write(out);
                }
                out.push(']');
            }
            J::Obj(v) => {
                out.push('{');
                for (i, (k, x)) in v.iter().enumerate() {
                    if i > 0 {
                        out.push(',');
                    }
                    let _ = write!(out, "\"{k}\":");
                    x.write(out);
                }
                out.push('}');
            }
        }
    }
}

// ---------------------------------------------------------------------------------------------
// dumper
// ---------------------------------------------------------------------------------------------
struct Dumper<'tcx> {
    tcx: TyCtxt<'tcx>,
    types: Vec<J>,
    type_ix: HashMap<Ty<'tcx>, usize>,
}

fn full_path(tcx: TyCtxt<'_>, did: DefId) -> String {
    ty::print::with_no_trimmed_paths!(ty::print::with_forced_impl_filename_line!(tcx.def_path_str(did)))
}

fn plain_path(tcx: TyCtxt<'_>, did: DefId) -> String {
    ty::print::with_no_trimmed_paths!(tcx.def_path_str(did))
}

impl<'tcx> Dumper<'tcx> {
    fn span(&self, sp: Span) -> J {
        let sm = self.tcx.sess.source_map();
        let exp = sp.from_expansion();
        let call = sp.source_callsite();
        let lo = sm.lookup_char_pos(call.lo());
        let file = match &lo.file.name {
            rustc_span::FileName::Real(r) => match r.local_path() {
                Some(p) => p.to_string_lossy().to_string(),
                None => format!("{:?}", lo.file.name),
            },
            other => format!("{other:?}"),
        };
        let mut o = vec![
            ("file", s(file)),
            ("line", n(lo.line)),
            ("col", n(lo.col.0 + 1)),
            ("exp", J::Bool(exp)),
        ];
        if exp {
            // innermost expansion kind and the outermost macro (the one written in user code)
            let ed = sp.ctxt().outer_expn_data();
            o.push(("expk", s(format!("{:?}", ed.kind))));
            if let Some(last) = sp.macro_backtrace().last() {
                o.push(("outer", s(format!("{:?}", last.kind))));
            }
        }
        J::Obj(o)
    }

    fn ty(&mut self, t: Ty<'tcx>) -> J {
        if let Some(ix) = self.type_ix.get(&t) {
            return n(*ix);
        }
        // reserve the slot first (recursive types go through ADTs by name, so no cycles here)
        let ix = self.types.len();
        self.types.push(J::Null);
        self.type_ix.insert(t, ix);
        let tcx = self.tcx;
        let text = ty::print::with_no_trimmed_paths!(t.to_string());
        let mut o: Vec<(&'static str, J)> = vec![("s", s(text))];
        match t.kind() {
            TyKind::Adt(def, args) => {
                o.push(("k", s("adt")));
                o.push(("def", s(plain_path(tcx, def.did()))));
                o.push(("local", J::Bool(def.did().is_local())));
                let mut a = vec![];
                for ga in args.iter() {
                    if let Some(t) = ga.as_type() {
                        a.push(self.ty(t));
                    } else {
                        a.push(s(format!("{ga:?}")));
                    }
                }
                o.push(("args", J::Arr(a)));
            }
            TyKind::Ref(_, inner, m) => {
                o.push(("k", s("ref")));
                o.push(("mut", J::Bool(m.is_mut())));
                let i = self.ty(*inner);
                o.push(("in", i));
            }
            TyKind::RawPtr(inner, m) => {
                o.push(("k", s("ptr")));
                o.push(("mut", J::Bool(m.is_mut())));
                let i = self.ty(*inner);
                o.push(("in", i));
            }
            TyKind::Tuple(ts) => {
                o.push(("k", s("tuple")));
                let mut a = vec![];
                for t in ts.iter() {
                    a.push(self.ty(t));
                }
                o.push(("args", J::Arr(a)));
            }
            TyKind::Array(inner, len) => {
                o.push(("k", s("array")));
                let i = self.ty(*inner);
                o.push(("in", i));
                o.push(("len", s(format!("{len:?}"))));
                if let Some(v) = len.try_to_target_usize(tcx) {
                    o.push(("n", n(v)));
                }
            }
            TyKind::Slice(inner) => {
                o.push(("k", s("slice")));
                let i = self.ty(*inner);
                o.push(("in", i));
            }
            TyKind::Closure(did, args) => {
                o.push(("k", s("closure")));
                o.push(("def", s(full_path(tcx, *did))));
                let mut a = vec![];
                for t in args.as_closure().upvar_tys().iter() {
                    a.push(self.ty(t));
                }
                o.push(("upvars", J::Arr(a)));
            }
            TyKind::FnDef(did, _) => {
                o.push(("k", s("fndef")));
                o.push(("def", s(plain_path(tcx, *did))));
            }
            TyKind::FnPtr(..) => o.push(("k", s("fnptr"))),
            TyKind::Dynamic(preds, _) => {
                o.push(("k", s("dyn")));
                if let Some(p) = preds.principal_def_id() {
                    o.push(("def", s(plain_path(tcx, p))));
                }
            }
            TyKind::Param(p) => {
                o.push(("k", s("param")));
                o.push(("name", s(p.name.as_str())));
            }
            TyKind::Alias(..) => o.push(("k", s("alias"))),
            TyKind::Bool | TyKind::Char | TyKind::Int(_) | TyKind::Uint(_) | TyKind::Float(_) => {
                o.push(("k", s("prim")))
            }
            TyKind::Str => o.push(("k", s("str"))),
            TyKind::Never => o.push(("k", s("never"))),
            _ => o.push(("k", s("other"))),
        }
        self.types[ix] = J::Obj(o);
        n(ix)
    }

    fn place(&mut self, body: &Body<'tcx>, p: &Place<'tcx>) -> J {
        let tcx = self.tcx;
        let mut projs = vec![];
        let mut pty = mir::PlaceTy::from_ty(body.local_decls[p.local].ty);
        for elem in p.projection.iter() {
            let j = match elem {
                PlaceElem::Deref => s("deref"),
                PlaceElem::Field(f, fty) => {
                    let mut o = vec![("f", n(f.as_usize()))];
                    match pty.ty.kind() {
                        TyKind::Adt(def, _) => {
                            let v = pty.variant_index.unwrap_or(rustc_abi::FIRST_VARIANT);
                            if def.is_enum() || def.is_struct() || def.is_union() {
                                let var = def.variant(v);
                                if let Some(fd) = var.fields.get(f) {
                                    o.push(("n", s(fd.name.as_str())));
                                }
                                o.push(("adt", s(plain_path(tcx, def.did()))));
                                if def.is_enum() {
                                    o.push(("vn", s(var.name.as_str())));
                                }
                            }
                        }
                        TyKind::Closure(..) => o.push(("upvar", J::Bool(true))),
                        _ => {}
                    }
                    let t = self.ty(fty);
                    o.push(("ty", t));
                    J::Obj(o)
                }
                PlaceElem::Downcast(name, v) => J::Obj(vec![
                    ("dc", n(v.as_usize())),
                    ("vn", match name {
                        Some(nm) => s(nm.as_str()),
                        None => J::Null,
                    }),
                ]),
                PlaceElem::Index(l) => J::Obj(vec![("idx", n(l.as_usize()))]),
                PlaceElem::ConstantIndex { offset, min_length, from_end } => J::Obj(vec![
                    ("cidx", n(offset)),
                    ("min", n(min_length)),
                    ("from_end", J::Bool(from_end)),
                ]),
                PlaceElem::Subslice { from, to, from_end } => J::Obj(vec![
                    ("sub_from", n(from)),
                    ("sub_to", n(to)),
                    ("from_end", J::Bool(from_end)),
                ]),
                PlaceElem::OpaqueCast(_) => s("opaque"),
                PlaceElem::UnwrapUnsafeBinder(_) => s("unwrap_binder"),
            };
            projs.push(j);
            pty = pty.projection_ty(tcx, elem);
        }
        J::Obj(vec![("l", n(p.local.as_usize())), ("p", J::Arr(projs))])
    }

    fn constant(&mut self, body_did: DefId, c: &Const<'tcx>) -> J {
        let tcx = self.tcx;
        let t = c.ty();
        let mut o: Vec<(&'static str, J)> = vec![];
        if let TyKind::FnDef(did, args) = t.kind() {
            o.push(("fn", s(plain_path(tcx, *did))));
            let _ = args;
        }
        let tj = self.ty(t);
        o.push(("ty", tj));
        // named unevaluated constant?
        if let Const::Unevaluated(uv, _) = c {
            o.push(("named", s(plain_path(tcx, uv.def))));
            if uv.promoted.is_some() {
                o.push(("promoted", J::Bool(true)));
            }
        }
        if let Const::Ty(_, ct) = c {
            o.push(("tyconst", s(format!("{ct:?}"))));
        }
        let env = TypingEnv::post_analysis(tcx, body_did);
        let is_scalar_ty = matches!(
            t.kind(),
            TyKind::Bool | TyKind::Char | TyKind::Int(_) | TyKind::Uint(_)
        );
        if is_scalar_ty {
            if let Some(si) = c.try_eval_scalar_int(tcx, env) {
                let bits = si.to_bits(si.size());
                let v: i128 = match t.kind() {
                    TyKind::Int(_) => si.to_int(si.size()),
                    _ => bits as i128,
                };
                o.push(("v", J::Num(v)));
            }
        }
        // string literals are useful for path-name facts ("LOCK", "index", ...)
        if let TyKind::Ref(_, inner, _) = t.kind() {
            let is_bytes = match inner.kind() {
                TyKind::Array(e, _) | TyKind::Slice(e) => matches!(e.kind(), TyKind::Uint(ty::UintTy::U8)),
                _ => false,
            };
            if is_bytes {
                if let Ok(val) = c.eval(tcx, env, rustc_span::DUMMY_SP) {
                    match val {
                        mir::ConstValue::Slice { .. } => {
                            if let Some(bytes) = val.try_get_slice_bytes_for_diagnostics(tcx) {
                                o.push(("bytes", s(String::from_utf8_lossy(bytes).to_string())));
                            }
                        }
                        mir::ConstValue::Scalar(rustc_middle::mir::interpret::Scalar::Ptr(ptr, _)) => {
                            let (prov, off) = ptr.into_raw_parts();
                            if let Some(rustc_middle::mir::interpret::GlobalAlloc::Memory(alloc)) =
                                tcx.try_get_global_alloc(prov.alloc_id())
                            {
                                let a = alloc.inner();
                                let len = a.len();
                                let start = off.bytes_usize();
                                if start <= len {
                                    let bytes = a.inspect_with_uninit_and_ptr_outside_interpreter(start..len);
                                    o.push(("bytes", s(String::from_utf8_lossy(bytes).to_string())));
                                }
                            }
                        }
                        _ => {}
                    }
                }
            }
            if inner.is_str() {
                if let Const::Val(val, _) = c {
                    if let Some(bytes) = val.try_get_slice_bytes_for_diagnostics(tcx) {
                        o.push(("str", s(String::from_utf8_lossy(bytes).to_string())));
                    }
                }
            }
        }
        J::Obj(o)
    }

    fn operand(&mut self, body: &Body<'tcx>, did: DefId, op: &Operand<'tcx>) -> J {
        match op {
            Operand::Copy(p) => J::Obj(vec![("copy", self.place(body, p))]),
            Operand::Move(p) => J::Obj(vec![("move", self.place(body, p))]),
            Operand::Constant(c) => J::Obj(vec![("const", self.constant(did, &c.const_))]),
            #[allow(unreachable_patterns)]
            _ => J::Obj(vec![("other_operand", J::Bool(true))]),
        }
    }

    fn rvalue(&mut self, body: &Body<'tcx>, did: DefId, rv: &Rvalue<'tcx>) -> J {
        let tcx = self.tcx;
        match rv {
            Rvalue::Use(op, ..) => J::Obj(vec![("k", s("use")), ("op", self.operand(body, did, op))]),
            Rvalue::Repeat(op, len) => J::Obj(vec![
                ("k", s("repeat")),
                ("op", self.operand(body, did, op)),
                ("len", match len.try_to_target_usize(tcx) {
                    Some(v) => n(v),
                    None => s(format!("{len:?}")),
                }),
            ]),
            Rvalue::Ref(_, bk, p) => J::Obj(vec![
                ("k", s("ref")),
                ("mut", J::Bool(matches!(bk, BorrowKind::Mut { .. }))),
                ("place", self.place(body, p)),
            ]),
            Rvalue::RawPtr(kind, p) => J::Obj(vec![
                ("k", s("rawptr")),
                ("mut", J::Bool(format!("{kind:?}").contains("Mut"))),
                ("place", self.place(body, p)),
            ]),
            Rvalue::Cast(kind, op, t) => {
                let kn = match kind {
                    CastKind::IntToInt => "int2int".to_string(),
                    CastKind::PointerCoercion(pc, _) => format!("coerce:{pc:?}"),
                    CastKind::Transmute => "transmute".to_string(),
                    other => format!("{other:?}"),
                };
                let from = op.ty(&body.local_decls, tcx);
                J::Obj(vec![
                    ("k", s("cast")),
                    ("ck", s(kn)),
                    ("op", self.operand(body, did, op)),
                    ("from", self.ty(from)),
                    ("to", self.ty(*t)),
                ])
            }
            Rvalue::BinaryOp(op, ab) => {
                let (a, b) = &**ab;
                J::Obj(vec![
                    ("k", s("binop")),
                    ("op", s(format!("{op:?}"))),
                    ("a", self.operand(body, did, a)),
                    ("b", self.operand(body, did, b)),
                ])
            }
            Rvalue::UnaryOp(op, a) => J::Obj(vec![
                ("k", s("unop")),
                ("op", s(format!("{op:?}"))),
                ("a", self.operand(body, did, a)),
            ]),
            Rvalue::Discriminant(p) => {
                J::Obj(vec![("k", s("discr")), ("place", self.place(body, p))])
            }
            Rvalue::Aggregate(kind, ops) => {
                let mut o: Vec<(&'static str, J)> = vec![("k", s("agg"))];
                match &**kind {
                    AggregateKind::Adt(adid, vidx, _, _, active_field) => {
                        let def = tcx.adt_def(*adid);
                        o.push(("ak", s("adt")));
                        o.push(("def", s(plain_path(tcx, *adid))));
                        o.push(("variant", n(vidx.as_usize())));
                        let var = def.variant(*vidx);
                        o.push(("vn", s(var.name.as_str())));
                        let names: Vec<J> = var.fields.iter().map(|f| s(f.name.as_str())).collect();
                        o.push(("fields", J::Arr(names)));
                        if let Some(af) = active_field {
                            o.push(("active", n(af.as_usize())));
                        }
                    }
                    AggregateKind::Closure(cdid, _) => {
                        o.push(("ak", s("closure")));
                        o.push(("def", s(full_path(tcx, *cdid))));
                    }
                    AggregateKind::Tuple => o.push(("ak", s("tuple"))),
                    AggregateKind::Array(_) => o.push(("ak", s("array"))),
                    other => o.push(("ak", s(format!("{other:?}")))),
                }
                let mut a = vec![];
                for op in ops.iter() {
                    a.push(self.operand(body, did, op));
                }
                o.push(("ops", J::Arr(a)));
                J::Obj(o)
            }
            Rvalue::CopyForDeref(p) => J::Obj(vec![
                ("k", s("use")),
                ("op", J::Obj(vec![("copy", self.place(body, p))])),
            ]),
            Rvalue::ThreadLocalRef(d) => {
                J::Obj(vec![("k", s("tls")), ("def", s(plain_path(tcx, *d)))])
            }
            other => J::Obj(vec![("k", s("other")), ("dbg", s(format!("{other:?}")))]),
        }
    }

    fn callee(&mut self, body: &Body<'tcx>, did: DefId, func: &Operand<'tcx>) -> J {
        let tcx = self.tcx;
        let fty = func.ty(&body.local_decls, tcx);
        let mut o: Vec<(&'static str, J)> = vec![];
        match fty.kind() {
            TyKind::FnDef(cdid, args) => {
                o.push(("path", s(plain_path(tcx, *cdid))));
                o.push(("local", J::Bool(cdid.is_local())));
                let mut ga = vec![];
                for a in args.iter() {
                    if let Some(t) = a.as_type() {
                        ga.push(self.ty(t));
                    } else {
                        ga.push(s(format!("{a:?}")));
                    }
                }
                o.push(("gargs", J::Arr(ga)));
                if let Some(tr) = tcx.trait_of_assoc(*cdid) {
                    o.push(("trait", s(plain_path(tcx, tr))));
                }
                if let Some(im) = tcx.impl_of_assoc(*cdid) {
                    let self_ty = tcx.type_of(im).instantiate_identity().skip_norm_wip();
                    let st = ty::print::with_no_trimmed_paths!(self_ty.to_string());
                    o.push(("impl_self", s(st)));
                }
                let env = TypingEnv::post_analysis(tcx, did);
                match Instance::try_resolve(tcx, env, *cdid, args) {
                    Ok(Some(inst)) => {
                        let rdid = inst.def_id();
                        let kind = match inst.def {
                            InstanceKind::Item(_) => "item",
                            InstanceKind::Intrinsic(_) => "intrinsic",
                            InstanceKind::Virtual(..) => "virtual",
                            InstanceKind::ClosureOnceShim { .. } => "closure_once_shim",
                            InstanceKind::FnPtrShim(..) => "fnptr_shim",
                            InstanceKind::DropGlue(..) => "drop_glue",
                            InstanceKind::CloneShim(..) => "clone_shim",
                            InstanceKind::ReifyShim(..) => "reify_shim",
                            InstanceKind::VTableShim(..) => "vtable_shim",
                            _ => "other",
                        };
                        o.push(("rk", s(kind)));
                        let rp = if tcx.is_closure_like(rdid) {
                            full_path(tcx, rdid)
                        } else {
                            plain_path(tcx, rdid)
                        };
                        o.push(("resolved", s(rp)));
                        o.push(("rlocal", J::Bool(rdid.is_local())));
                        if let Some(im) = tcx.impl_of_assoc(rdid) {
                            let self_ty = tcx.type_of(im).instantiate_identity().skip_norm_wip();
                            let st = ty::print::with_no_trimmed_paths!(self_ty.to_string());
                            o.push(("rimpl_self", s(st)));
                        }
                    }
                    Ok(None) => o.push(("rk", s("unresolved"))),
                    Err(_) => o.push(("rk", s("error"))),
                }
            }
            _ => {
                o.push(("indirect", J::Bool(true)));
                o.push(("op", self.operand(body, did, func)));
                let t = self.ty(fty);
                o.push(("ty", t));
            }
        }
        J::Obj(o)
    }

    fn unwind(u: &UnwindAction) -> J {
        match u {
            UnwindAction::Cleanup(bb) => n(bb.as_usize()),
            _ => J::Null,
        }
    }

    fn body(&mut self, did: DefId, body: &Body<'tcx>) -> J {
        let tcx = self.tcx;
        let mut o: Vec<(&'static str, J)> = vec![];
        let is_closure = tcx.is_closure_like(did);
        let path = if is_closure { full_path(tcx, did) } else { plain_path(tcx, did) };
        o.push(("path", s(path)));
        o.push(("kind", s(format!("{:?}", tcx.def_kind(did)))));
        o.push(("closure", J::Bool(is_closure)));
        let parent_mod = tcx.parent_module_from_def_id(did.expect_local()).to_def_id();
        o.push(("module", s(plain_path(tcx, parent_mod))));
        if is_closure {
            let parent = tcx.typeck_root_def_id(did);
            o.push(("root", s(plain_path(tcx, parent))));
            let mut caps = vec![];
            for cp in tcx.closure_captures(did.expect_local()) {
                caps.push(s(cp.to_string(tcx)));
            }
            o.push(("captures", J::Arr(caps)));
        }
        if let Some(im) = tcx.impl_of_assoc(did) {
            let self_ty = tcx.type_of(im).instantiate_identity().skip_norm_wip();
            o.push(("impl_self", s(ty::print::with_no_trimmed_paths!(self_ty.to_string()))));
            if let Some(tr) = tcx.impl_opt_trait_ref(im) {
                let tr = tr.instantiate_identity().skip_norm_wip();
                o.push(("impl_trait", s(plain_path(tcx, tr.def_id))));
            }
        }
        o.push(("span", self.span(body.span)));
        // visibility
        if !is_closure && matches!(tcx.def_kind(did), DefKind::Fn | DefKind::AssocFn) {
            let ev = tcx.effective_visibilities(());
            let ld = did.expect_local();
            o.push(("reachable", J::Bool(ev.is_reachable(ld))));
            o.push(("exported", J::Bool(ev.is_exported(ld))));
            o.push(("vis", s(format!("{:?}", tcx.visibility(did)))));
            let sig = tcx.fn_sig(did).instantiate_identity().skip_norm_wip();
            o.push(("sig", s(ty::print::with_no_trimmed_paths!(format!("{sig:?}")))));
        }
        o.push(("argc", n(body.arg_count)));
        // locals
        let mut locals = vec![];
        for (_l, decl) in body.local_decls.iter_enumerated() {
            locals.push(self.ty(decl.ty));
        }
        o.push(("locals", J::Arr(locals)));
        // debug names
        let mut names = vec![];
        for vdi in body.var_debug_info.iter() {
            if let mir::VarDebugInfoContents::Place(p) = &vdi.value {
                names.push(J::Obj(vec![
                    ("name", s(vdi.name.as_str())),
                    ("place", self.place(body, p)),
                ]));
            }
        }
        o.push(("names", J::Arr(names)));
        // blocks
        let mut blocks = vec![];
        for (bb, data) in body.basic_blocks.iter_enumerated() {
            let _: BasicBlock = bb;
            let mut stmts = vec![];
            for st in data.statements.iter() {
                match &st.kind {
                    StatementKind::Assign(bx) => {
                        let (p, rv) = &**bx;
                        stmts.push(J::Obj(vec![
                            ("k", s("assign")),
                            ("lhs", self.place(body, p)),
                            ("rv", self.rvalue(body, did, rv)),
                            ("line", n(tcx
                                .sess
                                .source_map()
                                .lookup_char_pos(st.source_info.span.source_callsite().lo())
                                .line)),
                            ("exp", J::Bool(st.source_info.span.from_expansion())),
                            ("expk", if st.source_info.span.from_expansion() {
                                s(format!("{:?}", st.source_info.span.ctxt().outer_expn_data().kind))
                            } else {
                                J::Null
                            }),
                        ]));
                    }
                    StatementKind::SetDiscriminant { place, variant_index } => {
                        stmts.push(J::Obj(vec![
                            ("k", s("setdiscr")),
                            ("lhs", self.place(body, place)),
                            ("variant", n(variant_index.as_usize())),
                        ]));
                    }
                    StatementKind::StorageLive(l) => {
                        stmts.push(J::Obj(vec![("k", s("live")), ("l", n(l.as_usize()))]));
                    }
                    StatementKind::StorageDead(l) => {
                        stmts.push(J::Obj(vec![("k", s("dead")), ("l", n(l.as_usize()))]));
                    }
                    StatementKind::Intrinsic(i) => {
                        stmts.push(J::Obj(vec![("k", s("intrinsic")), ("dbg", s(format!("{i:?}")))]));
                    }
                    _ => {}
                }
            }
            let term = data.terminator();
            let tsp = self.span(term.source_info.span);
            let t = match &term.kind {
                TerminatorKind::Goto { target } => {
                    J::Obj(vec![("k", s("goto")), ("t", n(target.as_usize()))])
                }
                TerminatorKind::SwitchInt { discr, targets } => {
                    let mut tg = vec![];
                    for (v, bb) in targets.iter() {
                        tg.push(J::Arr(vec![J::Num(v as i128), n(bb.as_usize())]));
                    }
                    let dty = discr.ty(&body.local_decls, tcx);
                    J::Obj(vec![
                        ("k", s("switch")),
                        ("discr", self.operand(body, did, discr)),
                        ("dty", self.ty(dty)),
                        ("targets", J::Arr(tg)),
                        ("otherwise", n(targets.otherwise().as_usize())),
                    ])
                }
                TerminatorKind::Return => J::Obj(vec![("k", s("return"))]),
                TerminatorKind::Unreachable => J::Obj(vec![("k", s("unreachable"))]),
                TerminatorKind::UnwindResume => J::Obj(vec![("k", s("resume"))]),
                TerminatorKind::UnwindTerminate(_) => J::Obj(vec![("k", s("terminate"))]),
                TerminatorKind::Drop { place, target, unwind, .. } => {
                    let pt = place.ty(&body.local_decls, tcx).ty;
                    J::Obj(vec![
                        ("k", s("drop")),
                        ("place", self.place(body, place)),
                        ("ty", self.ty(pt)),
                        ("t", n(target.as_usize())),
                        ("unwind", Self::unwind(unwind)),
                    ])
                }
                TerminatorKind::Call { func, args, destination, target, unwind, .. } => {
                    let mut a = vec![];
                    for arg in args.iter() {
                        a.push(self.operand(body, did, &arg.node));
                    }
                    J::Obj(vec![
                        ("k", s("call")),
                        ("callee", self.callee(body, did, func)),
                        ("args", J::Arr(a)),
                        ("dest", self.place(body, destination)),
                        ("t", match target {
                            Some(t) => n(t.as_usize()),
                            None => J::Null,
                        }),
                        ("unwind", Self::unwind(unwind)),
                    ])
                }
                TerminatorKind::TailCall { func, args, .. } => {
                    let mut a = vec![];
                    for arg in args.iter() {
                        a.push(self.operand(body, did, &arg.node));
                    }
                    J::Obj(vec![
                        ("k", s("tailcall")),
                        ("callee", self.callee(body, did, func)),
                        ("args", J::Arr(a)),
                    ])
                }
                TerminatorKind::Assert { cond, expected, msg, target, unwind } => {
                    let kind = format!("{msg:?}");
                    let kname = kind.split(['(', ' ', '{']).next().unwrap_or("").to_string();
                    J::Obj(vec![
                        ("k", s("assert")),
                        ("cond", self.operand(body, did, cond)),
                        ("expected", J::Bool(*expected)),
                        ("akind", s(kname)),
                        ("msg", s(kind)),
                        ("t", n(target.as_usize())),
                        ("unwind", Self::unwind(unwind)),
                    ])
                }
                TerminatorKind::InlineAsm { .. } => J::Obj(vec![("k", s("asm"))]),
                other => J::Obj(vec![("k", s("other")), ("dbg", s(format!("{other:?}")))]),
            };
            blocks.push(J::Obj(vec![
                ("cleanup", J::Bool(data.is_cleanup)),
                ("stmts", J::Arr(stmts)),
                ("term", t),
                ("span", tsp),
            ]));
        }
        o.push(("blocks", J::Arr(blocks)));
        J::Obj(o)
    }

    fn adts(&mut self) -> J {
        let tcx = self.tcx;
        let mut out = vec![];
        for ld in tcx.hir_crate_items(()).definitions() {
            let did = ld.to_def_id();
            match tcx.def_kind(did) {
                DefKind::Struct | DefKind::Enum | DefKind::Union => {
                    let def = tcx.adt_def(did);
                    let mut variants = vec![];
                    for v in def.variants().iter() {
                        let mut fields = vec![];
                        for f in v.fields.iter() {
                            let fty = tcx.type_of(f.did).instantiate_identity().skip_norm_wip();
                            fields.push(J::Obj(vec![
                                ("name", s(f.name.as_str())),
                                ("ty", self.ty(fty)),
                                ("vis", s(format!("{:?}", f.vis))),
                            ]));
                        }
                        variants.push(J::Obj(vec![
                            ("name", s(v.name.as_str())),
                            ("fields", J::Arr(fields)),
                        ]));
                    }
                    let ev = tcx.effective_visibilities(());
                    out.push(J::Obj(vec![
                        ("path", s(plain_path(tcx, did))),
                        ("kind", s(format!("{:?}", tcx.def_kind(did)))),
                        ("reachable", J::Bool(ev.is_reachable(ld))),
                        ("has_drop", J::Bool(def.destructor(tcx).is_some())),
                        ("drop_fn", match def.destructor(tcx) {
                            Some(d) => s(plain_path(tcx, d.did)),
                            None => J::Null,
                        }),
                        ("variants", J::Arr(variants)),
                    ]));
                }
                _ => {}
            }
        }
        J::Arr(out)
    }

    fn impls(&mut self) -> J {
        let tcx = self.tcx;
        let mut out = vec![];
        for ld in tcx.hir_crate_items(()).definitions() {
            let did = ld.to_def_id();
            if let DefKind::Impl { of_trait } = tcx.def_kind(did) {
                let self_ty = tcx.type_of(did).instantiate_identity().skip_norm_wip();
                let mut o: Vec<(&'static str, J)> = vec![
                    ("self", s(ty::print::with_no_trimmed_paths!(self_ty.to_string()))),
                    ("span", self.span(tcx.def_span(did))),
                ];
                if of_trait {
                    if let Some(tr) = tcx.impl_opt_trait_ref(did) {
                        let tr = tr.instantiate_identity().skip_norm_wip();
                        o.push(("trait", s(plain_path(tcx, tr.def_id))));
                    }
                }
                let mut items = vec![];
                for it in tcx.associated_item_def_ids(did) {
                    items.push(s(plain_path(tcx, *it)));
                }
                o.push(("items", J::Arr(items)));
                out.push(J::Obj(o));
            }
        }
        J::Arr(out)
    }

    fn consts(&mut self) -> J {
        let tcx = self.tcx;
        let mut out = vec![];
        for ld in tcx.hir_crate_items(()).definitions() {
            let did = ld.to_def_id();
            if matches!(tcx.def_kind(did), DefKind::Const { .. }) {
                let t = tcx.type_of(did).instantiate_identity().skip_norm_wip();
                let mut o: Vec<(&'static str, J)> =
                    vec![("path", s(plain_path(tcx, did))), ("ty", self.ty(t))];
                if matches!(t.kind(), TyKind::Int(_) | TyKind::Uint(_) | TyKind::Bool) {
                    if let Ok(val) = tcx.const_eval_poly(did) {
                        if let Some(si) = val.try_to_scalar_int() {
                            o.push(("v", J::Num(si.to_bits(si.size()) as i128)));
                        }
                    }
                }
                out.push(J::Obj(o));
            }
        }
        J::Arr(out)
    }
}

fn dump(tcx: TyCtxt<'_>, out_path: &str) {
    let mut d = Dumper { tcx, types: vec![], type_ix: HashMap::new() };
    let mut bodies = vec![];
    let mut skipped = vec![];
    for ld in tcx.mir_keys(()).iter() {
        let did = ld.to_def_id();
        let kind = tcx.def_kind(did);
        match kind {
            DefKind::Fn | DefKind::AssocFn | DefKind::Closure => {
                let body = tcx.optimized_mir(did);
                bodies.push(d.body(did, body));
            }
            other => skipped.push(J::Obj(vec![
                ("path", s(plain_path(tcx, did))),
                ("kind", s(format!("{other:?}"))),
            ])),
        }
    }
    let adts = d.adts();
    let impls = d.impls();
    let consts = d.consts();
    let root = J::Obj(vec![
        ("schema", n(1)),
        ("crate", s(tcx.crate_name(LOCAL_CRATE).as_str())),
        ("digest", s(std::env::var("CASSFACTS_DIGEST").unwrap_or_default())),
        ("bodies", J::Arr(bodies)),
        ("skipped", J::Arr(skipped)),
        ("adts", adts),
        ("impls", impls),
        ("consts", consts),
        ("types", J::Arr(std::mem::take(&mut d.types))),
    ]);
    let mut text = String::new();
    root.write(&mut text);
    let tmp = format!("{out_path}.tmp.{}", std::process::id());
    std::fs::write(&tmp, text).expect("cassfacts: cannot write fact file");
    std::fs::rename(&tmp, out_path).expect("cassfacts: cannot publish fact file");
}

struct Cb {
    target: String,
    out: Option<String>,
}

impl rustc_driver::Callbacks for Cb {
    fn after_analysis<'tcx>(
        &mut self,
        _compiler: &rustc_interface::interface::Compiler,
        tcx: TyCtxt<'tcx>,
    ) -> rustc_driver::Compilation {
        let name = tcx.crate_name(LOCAL_CRATE);
        if name.as_str() == self.target {
            // only the library target (not build scripts / tests with the same name)
            if let Some(out) = &self.out {
                dump(tcx, out);
            }
        }
        rustc_driver::Compilation::Continue
    }
}

fn main() {
    let mut args: Vec<String> = std::env::args().collect();
    // invoked as: cassfacts <path-to-rustc> <rustc args...>
    if args.len() > 1 && (args[1].ends_with("rustc") || args[1].contains("/rustc")) {
        args.remove(1);
    }
    let target = std::env::var("CASSFACTS_CRATE").unwrap_or_else(|_| "cassadilia".to_string());
    let out = std::env::var("CASSFACTS_OUT").ok();
    let mut cb = Cb { target, out };
    rustc_driver::run_compiler(&args, &mut cb);
}
