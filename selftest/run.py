#!/usr/bin/env python3
"""Self-test of the checker (not a registered check): applies single-edit mutants and behaviour-
preserving refactors to scratch copies of /repo (outside /repo and /verif) and runs the checks.

  selftest/run.py [--only NAME_SUBSTR] [--benign] [--keep]
"""
import argparse
import os
import shutil
import subprocess
import sys
import tempfile

HERE = os.path.dirname(os.path.abspath(__file__))
VERIF = os.path.dirname(HERE)
sys.path.insert(0, HERE)
import common
REPO = "/repo"


def make_copy(name):
    base = tempfile.mkdtemp(prefix="casslint-mut-")
    dst = os.path.join(base, "repo")
    os.makedirs(dst)
    shutil.copytree(os.path.join(REPO, "src"), os.path.join(dst, "src"))
    for f in ("Cargo.toml", "Cargo.lock"):
        shutil.copy(os.path.join(REPO, f), os.path.join(dst, f))
    return base, dst


def apply_sed(dst, seds):
    for (rel, old, new) in seds:
        p = os.path.join(dst, rel)
        s = open(p).read()
        if old not in s:
            raise ValueError("sed pattern %r not found in %s" % (old, rel))
        open(p, "w").write(s.replace(old, new))


def apply_edits(dst, edits):
    for (rel, old, new) in edits:
        p = os.path.join(dst, rel)
        s = open(p).read()
        if s.count(old) != 1:
            raise ValueError("edit does not apply exactly once in %s: %r (found %d)" % (rel, old[:60], s.count(old)))
        open(p, "w").write(s.replace(old, new))


def one(m, a):
    """Returns (lines to print, number of problems)."""
    import mutants
    lines = []
    bad = 0
    base, dst = common.make_copy("casslint-mut-")
    try:
        try:
            apply_edits(dst, m.get("edits", []))
            apply_sed(dst, m.get("sed", []))
            if m.get("patch"):
                q = subprocess.run(["patch", "-p1", "-s", "-i", os.path.join(HERE, m["patch"])], cwd=dst,
                                   capture_output=True, text=True)
                if q.returncode != 0:
                    raise ValueError("patch does not apply: %s" % (q.stdout + q.stderr)[:200])
        except ValueError as e:
            return ["STALE       %-40s %s" % (m["name"], e)], 1
        if a.benign:
            props = m.get("props") or mutants.ALL_PROPS
            res = common.run_props(dst, props)
            for prop in props:
                rc, out = res[prop]
                if "does not build" in out:
                    bad += 1
                    lines.append("NOBUILD     %-40s %s" % (m["name"], prop))
                    lines.append(out[-800:])
                    break
                if rc != 0:
                    bad += 1
                    lines.append("FALSE-ALARM %-40s %s" % (m["name"], prop))
                    lines.append("\n".join("      " + l for l in out.splitlines() if "FAIL" in l)[:1500] or out[-600:])
                elif a.v:
                    lines.append("silent      %-40s %s" % (m["name"], prop))
            lines.append("benign done %-40s" % m["name"])
        else:
            props = []
            for (prop, _n) in m["expect"]:
                if prop not in props:
                    props.append(prop)
            res = common.run_props(dst, props)
            for (prop, needle) in m["expect"]:
                rc, out = res[prop]
                hit = [l for l in out.splitlines() if "FAIL" in l and needle in l]
                if "does not build" in out:
                    bad += 1
                    lines.append("NOBUILD     %-40s %s" % (m["name"], prop))
                    lines.append(out[-600:])
                elif rc == 1 and hit:
                    lines.append("caught      %-40s %s  %s" % (m["name"], prop, hit[0].strip()[:150]))
                else:
                    bad += 1
                    lines.append("MISSED      %-40s %s (wanted %s; rc=%d)" % (m["name"], prop, needle, rc))
                    if a.v:
                        lines.append(out)
    finally:
        if not a.keep:
            shutil.rmtree(base, ignore_errors=True)
        else:
            lines.append("kept " + dst)
    return lines, bad


def main():
    ap = argparse.ArgumentParser()
    ap.add_argument("--only", default=None)
    ap.add_argument("--benign", action="store_true")
    ap.add_argument("--keep", action="store_true")
    ap.add_argument("-v", action="store_true")
    a = ap.parse_args()
    import mutants
    from concurrent.futures import ThreadPoolExecutor
    todo = mutants.BENIGN if a.benign else mutants.MUTANTS
    todo = [m for m in todo if not a.only or a.only in m["name"]]
    bad = 0
    with ThreadPoolExecutor(max_workers=common.JOBS) as ex:
        for lines, nb in ex.map(lambda m: one(m, a), todo):
            bad += nb
            for l in lines:
                print(l)
            sys.stdout.flush()
    print("selftest: %d problem(s)" % bad)
    return 1 if bad else 0


if __name__ == "__main__":
    sys.exit(main())
