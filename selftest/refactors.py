#!/usr/bin/env python3
"""Runs all 20 checks on behaviour-preserving refactor patches: selftest/refactors.py DIR [--only=substr]
DIR holds *.diff files (git diff against /repo HEAD). Every check must stay silent on every patch."""
import os
import shutil
import subprocess
import sys
import tempfile
from concurrent.futures import ThreadPoolExecutor

sys.path.insert(0, os.path.dirname(os.path.abspath(__file__)))
import common

HERE = os.path.dirname(os.path.abspath(__file__))
VERIF = os.path.dirname(HERE)
REPO = "/repo"
ALL = ["C%02d" % i for i in range(1, 21)]


def one(pd):
    name = os.path.basename(pd)
    base, dst = common.make_copy("casslint-ref-")
    p = subprocess.run(["patch", "-p1", "-s", "-i", pd], cwd=dst, capture_output=True, text=True)
    out = []
    if p.returncode != 0:
        shutil.rmtree(base, ignore_errors=True)
        return name, ["PATCH DOES NOT APPLY: %s" % (p.stdout + p.stderr)[:200]]
    res = common.run_props(dst, ALL)
    for prop in ALL:
        rc, text = res[prop]
        if rc != 0:
            fails = [l.strip() for l in text.splitlines() if l.strip().startswith("FAIL")]
            viol = [l.strip() for l in text.splitlines() if l.startswith("  ") and not l.strip().startswith(("ok", "FAIL", "note", "consequence"))]
            out.append("%s: %s" % (prop, " || ".join((fails or viol or [text[-300:]])[:4])[:700]))
    shutil.rmtree(base, ignore_errors=True)
    return name, out


def main():
    d = sys.argv[1]
    only = [a.split("=", 1)[1] for a in sys.argv[2:] if a.startswith("--only=")]
    d = os.path.abspath(d)
    files = sorted(os.path.join(d, f) for f in os.listdir(d) if f.endswith(".diff") and (not only or any(o in f for o in only)))
    bad = 0
    with ThreadPoolExecutor(max_workers=common.JOBS) as ex:
        for name, out in ex.map(one, files):
            if out:
                bad += 1
                print("FALSE-ALARM %s" % name)
                for l in out:
                    print("     " + l)
            else:
                print("silent      %s" % name)
            sys.stdout.flush()
    print("refactors: %d of %d raised an alarm" % (bad, len(files)))


if __name__ == "__main__":
    main()
