"""Mutant corpus: single edits that break a property while compiling (and, for the sampled ones,
passing the 70 baseline tests), with the rule that must report each; and behaviour-preserving
refactors on which every check must stay silent."""

ALL_PROPS = ["C%02d" % i for i in range(1, 21)]

MUTANTS = [
    {"name": "c09-drop-wal-sync",
     "edits": [("src/wal/storage.rs",
                """        self.writer.get_ref().sync_data().map_err(|e| WalError::Io {
            operation: WalIoOperation::SyncData,
            path: None,
            source: e,
        })?;

        tracing::trace!(""",
                """        tracing::trace!(""")],
     "expect": [("C09", "C09|R2")]},
    {"name": "c09-sync-before-flush",
     "edits": [("src/wal/storage.rs",
                """        self.writer.flush().map_err(|e| WalError::Io {
            operation: WalIoOperation::FlushWriter,
            path: None,
            source: e,
        })?;
        self.writer.get_ref().sync_data().map_err(|e| WalError::Io {
            operation: WalIoOperation::SyncData,
            path: None,
            source: e,
        })?;
""",
                """        self.writer.get_ref().sync_data().map_err(|e| WalError::Io {
            operation: WalIoOperation::SyncData,
            path: None,
            source: e,
        })?;
        self.writer.flush().map_err(|e| WalError::Io {
            operation: WalIoOperation::FlushWriter,
            path: None,
            source: e,
        })?;
""")],
     "expect": [("C09", "C09|R2")]},
    {"name": "c09-swap-fdatasync-commit-blob",
     "edits": [("src/transaction.rs",
                """        self.cas_inner.fdatasync(file_to_sync)?;

        let blob_hash""",
                """        let blob_hash"""),
               ("src/transaction.rs",
                """            .map_err(crate::LibError::Cas)?;

        let delete_fn""",
                """            .map_err(crate::LibError::Cas)?;
        self.cas_inner.fdatasync(file_to_sync)?;

        let delete_fn""")],
     "expect": [("C09", "C09|R1")]},
    {"name": "c09-ignore-wal-sync-result",
     "edits": [("src/wal/storage.rs",
                """        self.writer.get_ref().sync_data().map_err(|e| WalError::Io {
            operation: WalIoOperation::SyncData,
            path: None,
            source: e,
        })?;

        tracing::trace!(""",
                """        let _ = self.writer.get_ref().sync_data();

        tracing::trace!(""")],
     "expect": [("C09", "C09|R2"), ("C09", "C09|R5")]},
    {"name": "c09-delete-before-apply",
     "edits": [("src/index/manager.rs",
                """        let unreferenced = state.apply_logical_op(logical_op).expect("Index is corrupted");
""",
                """        let unreferenced = state.apply_logical_op(logical_op).expect("Index is corrupted");
        let _ = wal.get_next_op_version();
""")],
     "expect": []},
    {"name": "c09-prune-before-save",
     "edits": [("src/index/manager.rs",
                """        let serialized_len = IndexStatePersister::new(&self.paths).save(snapshot)?;
        snapshot.stats.index.serialized_size_bytes = serialized_len;
        // 3. Prune segments up to the target
        wal_guard
            .commit_checkpoint(target_version, current_checkpoint)
            .map_err(IndexError::ApplyWalOpWriteEntry)?;
""",
                """        wal_guard
            .commit_checkpoint(target_version, current_checkpoint)
            .map_err(IndexError::ApplyWalOpWriteEntry)?;
        let serialized_len = IndexStatePersister::new(&self.paths).save(snapshot)?;
        snapshot.stats.index.serialized_size_bytes = serialized_len;
""")],
     "expect": [("C09", "C09|R4"), ("C03", "C03|R2")]},
    {"name": "c09-no-sync-tmp",
     "edits": [("src/io.rs",
                """    temp_file.sync_data().map_err(|e| IoError::AtomicWrite {
        step: AtomicWriteStep::SyncTemp,
        target_path: target_path.to_path_buf(),
        temp_path: temp_path.to_path_buf(),
        source: e,
    })?;
""", "")],
     "expect": [("C09", "C09|R4")]},
    {"name": "c09-async-in-sync-mode",
     "edits": [("src/cas.rs",
                """            SyncMode::Sync => None,
            SyncMode::Async => {""",
                """            SyncMode::Async => None,
            SyncMode::Sync => {""")],
     "expect": [("C09", "C09|R0")]},
    {"name": "c09-unlink-before-wal",
     "edits": [("src/index/manager.rs",
                """        let intents = self.pending_intents.lock();

        let (mut unreferenced_from_op, rolled_over) = {
            let mut state = self.state.write();
            let mut wal = self.wal.lock();
            let (hashes, _append_info, rolled) =
                Self::apply_wal_op_unsafe(&mut state, &mut wal, &logical_op)?;
            (hashes, rolled)
        };
""",
                """        let intents = self.pending_intents.lock();
        delete_fn(&[]).map_err(|e| IndexError::BlobDeletion { source: e })?;

        let (mut unreferenced_from_op, rolled_over) = {
            let mut state = self.state.write();
            let mut wal = self.wal.lock();
            let (hashes, _append_info, rolled) =
                Self::apply_wal_op_unsafe(&mut state, &mut wal, &logical_op)?;
            (hashes, rolled)
        };
""")],
     "expect": [("C09", "C09|R3"), ("C03", "C03|R1")]},
]

MUTANTS += [
    {"name": "c06-open-blob-for-write",
     "edits": [("src/cas_manager.rs",
                """        File::open(&cas_path).map_err(|e| CasManagerError::FileOperation {
            operation: CasIoOperation::OpenBuffered,""",
                """        std::fs::OpenOptions::new().read(true).write(true).open(&cas_path).map_err(|e| CasManagerError::FileOperation {
            operation: CasIoOperation::OpenBuffered,""")],
     "expect": [("C06", "C06|R1")]},
    {"name": "c06-skip-flush-into-parts",
     "edits": [("src/transaction.rs",
                """        let file_to_sync = self.writer.into_inner().map_err(|e| crate::LibError::Io {
            operation: LibIoOperation::CommitFlushWriter,
            path: None,
            source: e.into_error(),
        })?;""",
                """        let (file_to_sync, _unflushed) = self.writer.into_parts();
        let _ = LibIoOperation::CommitFlushWriter;""")],
     "expect": [("C06", "C06|R3"), ("C09", "C09|R1")]},
    {"name": "c06-reserve-final-path",
     "edits": [("src/cas_manager.rs",
                """        match std::fs::rename(staging_path, &final_cas_path) {""",
                """        let _reserve = File::create(&final_cas_path);
        match std::fs::rename(staging_path, &final_cas_path) {""")],
     "expect": [("C06", "C06|R1")]},
    {"name": "c06-hash-of-key",
     "edits": [("src/transaction.rs",
                """        let blob_hash = BlobHash::from_bytes(*self.hasher.finalize().as_bytes());""",
                """        let blob_hash = BlobHash::from_bytes(*blake3::hash(&self.key.to_key_bytes_owned()).as_bytes());""")],
     "expect": [("C06", "C06|R4")]},
    {"name": "c11-lock-after-index-load",
     "edits": [("src/cas.rs",
                """        lockfile.try_lock().map_err(|_e| LibError::AlreadyOpened)?;

""", ""),
               ("src/cas.rs",
                """        let index = Index::load(db_root, config.clone()).map_err(LibError::Index)?;
""",
                """        let index = Index::load(db_root, config.clone()).map_err(LibError::Index)?;
        lockfile.try_lock().map_err(|_e| LibError::AlreadyOpened)?;
""")],
     "expect": [("C11", "C11|R1")]},
    {"name": "c11-blocking-lock",
     "edits": [("src/cas.rs",
                """        lockfile.try_lock().map_err(|_e| LibError::AlreadyOpened)?;""",
                """        lockfile.lock().map_err(|_e| LibError::AlreadyOpened)?;""")],
     "expect": [("C11", "C11|R3")]},
    {"name": "c11-ignore-lock-failure",
     "edits": [("src/cas.rs",
                """        lockfile.try_lock().map_err(|_e| LibError::AlreadyOpened)?;""",
                """        if lockfile.try_lock().is_err() {
            tracing::warn!("database directory is in use");
        }""")],
     "expect": [("C11", "C11|R1")]},
    {"name": "c11-store-unlocked-handle",
     "edits": [("src/cas.rs",
                """        Ok(Self { paths, index, cas_manager, _lockfile: lockfile, datasync_channel })""",
                """        let keep = std::fs::File::open(paths.lockfile_path()).map_err(|e| LibError::Io {
            operation: LibIoOperation::CreateLockFile,
            path: None,
            source: e,
        })?;
        Ok(Self { paths, index, cas_manager, _lockfile: keep, datasync_channel })""")],
     "expect": [("C11", "C11|R4")]},
    {"name": "c13-write-takes-intents-lock",
     "edits": [("src/transaction.rs",
                """        self.size += data.len() as u64;""",
                """        let _g = self.cas_inner.index.pending_intents.lock();
        self.size += data.len() as u64;""")],
     "expect": [("C13", "C13|R1")]},
    {"name": "c13-new-touches-cas",
     "edits": [("src/transaction.rs",
                """        let staging_dir = cas_inner.paths.staging_root_path();
""",
                """        let staging_dir = cas_inner.paths.cas_root_path();
""")],
     "expect": [("C13", "C13|R1"), ("C06", "C06|")]},
    {"name": "c19-index-load-before-validation",
     "edits": [("src/cas.rs",
                """        let index = Index::load(db_root, config.clone()).map_err(LibError::Index)?;
""", ""),
               ("src/cas.rs",
                """        // Load or create settings
""",
                """        let index = Index::load(db_root, config.clone()).map_err(LibError::Index)?;
        // Load or create settings
""")],
     "expect": [("C19", "C19|R1")]},
    {"name": "c19-future-versions-only",
     "edits": [("src/settings.rs",
                """                if settings.version != CURRENT_DB_VERSION {""",
                """                if settings.version > CURRENT_DB_VERSION {""")],
     "expect": [("C19", "C19|R3")]},
    {"name": "c19-config-flag-wins",
     "edits": [("src/cas.rs",
                """        let cas_manager = Arc::new(CasManager::new(paths.clone(), dir_tree_is_pre_created));""",
                """        let _ = dir_tree_is_pre_created;
        let cas_manager = Arc::new(CasManager::new(paths.clone(), config.pre_create_cas_dirs));""")],
     "expect": [("C19", "C19|R4")]},
    {"name": "c19-always-save-settings",
     "edits": [("src/cas.rs",
                """        let cas_manager = Arc::new(CasManager::new(paths.clone(), dir_tree_is_pre_created));""",
                """        settings_persister
            .save(&DbSettings {
                version: settings::CURRENT_DB_VERSION,
                dir_tree_is_pre_created,
                num_ops_per_wal: config.num_ops_per_wal,
            })
            .map_err(LibError::Settings)?;
        let cas_manager = Arc::new(CasManager::new(paths.clone(), dir_tree_is_pre_created));""")],
     "expect": [("C19", "C19|R5")]},
    {"name": "c19-no-compare",
     "edits": [("src/cas.rs",
                """                if existing_settings.num_ops_per_wal != config.num_ops_per_wal {""",
                """                if existing_settings.num_ops_per_wal > config.num_ops_per_wal {""")],
     "expect": [("C19", "C19|R1")]},
]

MUTANTS += [
    {"name": "c15-checkpoint-wal-before-state",
     "edits": [("src/index/manager.rs",
                """        let mut snapshot = self.state.write();
        let mut wal_guard = self.wal.lock();
""",
                """        let mut wal_guard = self.wal.lock();
        let mut snapshot = self.state.write();
""")],
     "expect": [("C15", "C15|R1")]},
    {"name": "c15-reentrant-read-under-write",
     "edits": [("src/index/manager.rs",
                """        // 2. Set the version we're about to persist
""",
                """        let _keys_now = self.read_state().len();
        // 2. Set the version we're about to persist
""")],
     "expect": [("C15", "C15|R1")]},
    {"name": "c15-bounded-channel",
     "edits": [("src/cas.rs",
                """let (sender, receiver) = std::sync::mpsc::channel::<File>();""",
                """let (sender, receiver) = std::sync::mpsc::sync_channel::<File>(1);"""),
               ("src/cas.rs",
                """    datasync_channel: Option<std::sync::mpsc::Sender<File>>,""",
                """    datasync_channel: Option<std::sync::mpsc::SyncSender<File>>,""")],
     "expect": [("C15", "C15|R2")]},
    {"name": "c15-intents-under-wal",
     "edits": [("src/index/manager.rs",
                """        let mut wal_guard = self.wal.lock();

        self.checkpoint_inner(reason, &mut wal_guard, &mut *snapshot)""",
                """        let mut wal_guard = self.wal.lock();
        let _pending = self.pending_intents.lock().len();

        self.checkpoint_inner(reason, &mut wal_guard, &mut *snapshot)""")],
     "expect": [("C15", "C15|R1")]},
    {"name": "c04-release-intents-before-delete",
     "edits": [("src/index/manager.rs",
                """        unreferenced_from_op.retain(|hash| !self.has_live_intent(hash));

        // Delete blobs BEFORE any checkpoint
        if !unreferenced_from_op.is_empty() {
            delete_fn(&unreferenced_from_op).map_err(|e| IndexError::BlobDeletion { source: e })?;
        }

        drop(intents);

        if rolled_over {
            let mut state = self.state.write();
            let mut wal = self.wal.lock();
            self.checkpoint_inner(CheckpointReason::SegmentRollover, &mut wal, &mut state)?;
        }

        Ok(())
    }

    pub fn apply_remove_op(""",
                """        unreferenced_from_op.retain(|hash| !self.has_live_intent(hash));

        drop(intents);

        // Delete blobs BEFORE any checkpoint
        if !unreferenced_from_op.is_empty() {
            delete_fn(&unreferenced_from_op).map_err(|e| IndexError::BlobDeletion { source: e })?;
        }

        if rolled_over {
            let mut state = self.state.write();
            let mut wal = self.wal.lock();
            self.checkpoint_inner(CheckpointReason::SegmentRollover, &mut wal, &mut state)?;
        }

        Ok(())
    }

    pub fn apply_remove_op(""")],
     "expect": [("C04", "C04|R1"), ("C04", "C04|R4")]},
    {"name": "c04-remove-without-filter",
     "edits": [("src/index/manager.rs",
                """        // Remove any unreferenced hashes that are still referenced by intents
        unreferenced_from_op.retain(|hash| !self.has_live_intent(hash));
""", "")],
     "expect": [("C04", "C04|R2")]},
    {"name": "c04-register-after-publish",
     "edits": [("src/transaction.rs",
                """        // Register intent - returns a guard that will cleanup on drop if not committed
        let intent_guard = self
            .cas_inner
            .index
            .register_intent(self.key.clone(), IntentMeta { blob_hash, blob_size: self.size })
            .map_err(crate::LibError::Index)?;

        tracing::debug!(%blob_hash, key = ?self.key, "Committing transaction");
        let _cas_path = self
            .cas_inner
            .cas_manager
            .commit_blob(self.temp_file.path(), &blob_hash)
            .map_err(crate::LibError::Cas)?;
""",
                """        tracing::debug!(%blob_hash, key = ?self.key, "Committing transaction");
        let _cas_path = self
            .cas_inner
            .cas_manager
            .commit_blob(self.temp_file.path(), &blob_hash)
            .map_err(crate::LibError::Cas)?;

        // Register intent - returns a guard that will cleanup on drop if not committed
        let intent_guard = self
            .cas_inner
            .index
            .register_intent(self.key.clone(), IntentMeta { blob_hash, blob_size: self.size })
            .map_err(crate::LibError::Index)?;
""")],
     "expect": [("C04", "C04|R3")]},
    {"name": "c04-orphan-ignores-intents",
     "edits": [("src/orphan.rs",
                """                drop(state);

                if still_referenced || has_intent {
                    result.orphans_skipped += 1;
                    continue;
                }

                match std::fs::remove_file(&blob_path) {""",
                """                drop(state);
                let _ = has_intent;

                if still_referenced {
                    result.orphans_skipped += 1;
                    continue;
                }

                match std::fs::remove_file(&blob_path) {""")],
     "expect": [("C04", "C04|R2"), ("C08", "C08|R1")]},
    {"name": "c04-filter-by-key-map-again",
     "edits": [("src/index/manager.rs",
                """        // Filter out any unreferenced hashes that are still referenced by other intents
        unreferenced_from_op.retain(|hash| !self.has_live_intent(hash));""",
                """        // Filter out any unreferenced hashes that are still referenced by other intents
        unreferenced_from_op
            .retain(|hash| !intents.values().any(|intent_hash| intent_hash == hash));""")],
     "expect": [("C04", "C04|R5")]},
    {"name": "c04-orphan-recheck-outside-lock",
     "edits": [("src/orphan.rs",
                """        let blob_path = self.cas_inner.paths.cas_file_path(hash);
        let _intents = self.cas_inner.index.pending_intents.lock();
        let state = self.cas_inner.index.read_state();
        let still_referenced = state.contains_blob_hash(hash);
        let has_intent = self.cas_inner.index.has_live_intent(hash);
        drop(state);
""",
                """        let blob_path = self.cas_inner.paths.cas_file_path(hash);
        let _intents = self.cas_inner.index.pending_intents.lock();
        let state = self.cas_inner.index.read_state();
        let still_referenced = state.contains_blob_hash(hash);
        let has_intent = self.cas_inner.index.has_live_intent(hash);
        drop(state);
        drop(_intents);
""")],
     "expect": [("C04", "C04|R1"), ("C08", "C08|R1")]},
    {"name": "c05-open-after-guard-release",
     "edits": [("src/cas.rs",
                """        let (item, file) = {
            let state = self.index.read_state();
            let Some(item) = state.get_item(key) else {
                return Ok(None);
            };
            let file = self.cas_manager.open_blob(&item.blob_hash);
            (item, file)
        };
""",
                """        let item = {
            let state = self.index.read_state();
            let Some(item) = state.get_item(key) else {
                return Ok(None);
            };
            item
        };
        let file = self.cas_manager.open_blob(&item.blob_hash);
""")],
     "expect": [("C05", "C05|R1")]},
    {"name": "c05-second-open-by-path",
     "edits": [("src/cas_manager.rs",
                """        let read_len = range_end - range_start;
        if read_len == 0 {""",
                """        let reopened = File::open(&cas_path).map_err(|e| CasManagerError::FileOperation {
            operation: CasIoOperation::OpenRangeRead,
            path: cas_path.clone(),
            source: e,
        })?;
        let file = &reopened;
        let read_len = range_end - range_start;
        if read_len == 0 {""")],
     "expect": [("C05", "C05|R2")]},
    {"name": "c08-delete-any-hash",
     "edits": [("src/orphan.rs",
                """        if !self.orphaned_blobs.contains(hash) {
            return Ok(false); // Not in orphan list
        }
""", "")],
     "expect": [("C08", "C08|R1")]},
    {"name": "c08-skip-unparsable-names",
     "edits": [("src/orphan.rs",
                """                    None => {
                        // Invalid filename or path structure
                        invalid_files.push(blob_path);
                    }""",
                """                    None => {
                        // Invalid filename or path structure
                        tracing::debug!(path = ?blob_path, "ignoring unknown file");
                    }""")],
     "expect": [("C08", "C08|R4")]},
    {"name": "c08-missing-polarity",
     "edits": [("src/orphan.rs",
                """        if !seen_blobs.contains(&hash) {""",
                """        if seen_blobs.contains(&hash) {""")],
     "expect": [("C08", "C08|R6")]},
    {"name": "c08-verifier-size-only",
     "edits": [("src/orphan.rs",
                """    let actual_hash = BlobHash(hasher.finalize().into());
    Ok(actual_hash == *expected_hash)""",
                """    let actual_hash = BlobHash(hasher.finalize().into());
    let _ = actual_hash == *expected_hash;
    Ok(true)""")],
     "expect": [("C08", "C08|R5")]},
    {"name": "c08-staging-listed-as-invalid",
     "edits": [("src/orphan.rs",
                """            staging_files.push(entry.path());""",
                """            staging_files.push(cas_inner.paths.cas_root_path().join(entry.file_name()));""")],
     "expect": [("C08", "C08|R3")]},
]

MUTANTS += [
    {"name": "c03-record-in-two-writes",
     "edits": [("src/wal/storage.rs",
                """        record.extend_from_slice(op_data);

        self.writer.write_all(&record).map_err(|io_err| WalError::WriteWalEntryDataIO {""",
                """        self.writer.write_all(&record).map_err(|io_err| WalError::WriteWalEntryDataIO {
            op_version,
            segment_id: self.segment_id,
            source: io_err,
        })?;

        self.writer.write_all(op_data).map_err(|io_err| WalError::WriteWalEntryDataIO {""")],
     "expect": [("C03", "C03|R4")]},
    {"name": "c03-index-written-in-place",
     "edits": [("src/index/persistence.rs",
                """        atomically_write_file_bytes(index_path, index_tmp_path, &data_bytes)?;""",
                """        let _ = index_tmp_path;
        std::fs::write(index_path, &data_bytes).map_err(PersisterError::ReadIndexIo)?;""")],
     "expect": [("C03", "C03|R3"), ("C09", "C09|R4")]},
    {"name": "c03-segment-created-unconditionally",
     "edits": [("src/wal/storage.rs",
                """        if !wal_path.exists() {
            tracing::debug!(
                "Ensuring WAL segment file {} (for next op version {}) exists at path: {}",""",
                """        if segment_id == segment_id {
            tracing::debug!(
                "Ensuring WAL segment file {} (for next op version {}) exists at path: {}",""")],
     "expect": [("C03", "C03|R5")]},
    {"name": "c03-apply-before-append",
     "edits": [("src/index/manager.rs",
                """        let append_info = wal.append_op(&serialized)?;

        let unreferenced = state.apply_logical_op(logical_op).expect("Index is corrupted");
""",
                """        let unreferenced = state.apply_logical_op(logical_op).expect("Index is corrupted");

        let append_info = wal.append_op(&serialized)?;
""")],
     "expect": [("C03", "C03|R1"), ("C09", "C09|R2")]},
    {"name": "c03-publish-after-log",
     "edits": [("src/transaction.rs",
                """        tracing::debug!(%blob_hash, key = ?self.key, "Committing transaction");
        let _cas_path = self
            .cas_inner
            .cas_manager
            .commit_blob(self.temp_file.path(), &blob_hash)
            .map_err(crate::LibError::Cas)?;

        let delete_fn = |hashes: &[BlobHash]| -> Result<(), crate::cas_manager::CasManagerError> {
            self.cas_inner.cas_manager.delete_blobs(hashes).map(|_| ())
        };

        // Commit the intent - this applies the WAL operation and deletes unreferenced blobs
        intent_guard.commit(&delete_fn).map_err(crate::LibError::Index)?;
""",
                """        tracing::debug!(%blob_hash, key = ?self.key, "Committing transaction");
        let delete_fn = |hashes: &[BlobHash]| -> Result<(), crate::cas_manager::CasManagerError> {
            self.cas_inner.cas_manager.delete_blobs(hashes).map(|_| ())
        };

        // Commit the intent - this applies the WAL operation and deletes unreferenced blobs
        intent_guard.commit(&delete_fn).map_err(crate::LibError::Index)?;
        let _cas_path = self
            .cas_inner
            .cas_manager
            .commit_blob(self.temp_file.path(), &blob_hash)
            .map_err(crate::LibError::Cas)?;
""")],
     "expect": [("C03", "C03|R1")]},
]

MUTANTS += [
    {"name": "c02-skip-recompute-stats",
     "edits": [("src/index/manager.rs",
                """        state.recompute_stats(index_file_size);
""", """        let _ = index_file_size;
""")],
     "expect": [("C02", "C02|R5")]},
    {"name": "c02-no-refcount-on-load",
     "edits": [("src/index/persistence.rs",
                """                    state.increment_ref(&item.blob_hash);
""", "")],
     "expect": [("C02", "C02|R5")]},
    {"name": "c02-replay-from-scratch",
     "edits": [("src/index/manager.rs",
                """        wal_manager.replay_and_prepare(checkpoint_version, |op| {""",
                """        let _ = checkpoint_version;
        wal_manager.replay_and_prepare(None, |op| {""")],
     "expect": [("C02", "C02|R3")]},
    {"name": "c02-version-stored-after-save",
     "edits": [("src/index/manager.rs",
                """        snapshot.last_persisted_version = Some(target_version);

        let serialized_len = IndexStatePersister::new(&self.paths).save(snapshot)?;
""",
                """        let serialized_len = IndexStatePersister::new(&self.paths).save(snapshot)?;
        snapshot.last_persisted_version = Some(target_version);
""")],
     "expect": [("C02", "C02|R3")]},
    {"name": "c02-replay-skips-large-records",
     "edits": [("src/wal/replay.rs",
                """                // Skip already-checkpointed ops
""",
                """                if entry.op_data.len() > (1 << 20) {
                    continue;
                }
                // Skip already-checkpointed ops
""")],
     "expect": [("C02", "C02|R6")]},
    {"name": "c02-prune-by-next-version",
     "edits": [("src/index/manager.rs",
                """            .commit_checkpoint(target_version, current_checkpoint)""",
                """            .commit_checkpoint(wal_guard.get_next_op_version(), current_checkpoint)""")],
     "expect": [("C02", "C02|R3")]},
]

MUTANTS += [
    {"name": "c01-remove-always-true",
     "edits": [("src/cas.rs",
                """            Ok(true)
        } else {
            Ok(false)
        }""",
                """            Ok(true)
        } else {
            Ok(true)
        }""")],
     "expect": [("C01", "C01|R1")]},
    {"name": "c01-remove-ignores-apply-error",
     "edits": [("src/cas.rs",
                """            self.index.apply_remove_op(vec![key.clone()], &delete_fn).map_err(LibError::Index)?;
            Ok(true)""",
                """            let _ = self.index.apply_remove_op(vec![key.clone()], &delete_fn).map_err(LibError::Index);
            Ok(true)""")],
     "expect": [("C01", "C01|R1")]},
    {"name": "c01-size-is-key-length",
     "edits": [("src/transaction.rs",
                """IntentMeta { blob_hash, blob_size: self.size })""",
                """IntentMeta { blob_hash, blob_size: self.key.to_key_bytes_owned().len() as u64 })""")],
     "expect": [("C01", "C01|R2")]},
    {"name": "c01-get-size-wrong-field",
     "edits": [("src/cas.rs",
                """        self.with_blob_item(key, |item| Ok(item.blob_size))""",
                """        self.with_blob_item(key, |item| Ok(item.blob_hash.0.len() as u64))""")],
     "expect": [("C01", "C01|R3")]},
    {"name": "c01-open-error-means-absent",
     "edits": [("src/cas.rs",
                """            let file = self.cas_manager.open_blob(&item.blob_hash);
            (item, file)""",
                """            let Ok(file) = self.cas_manager.open_blob(&item.blob_hash) else {
                return Ok(None);
            };
            (item, Ok::<File, CasManagerError>(file))""")],
     "expect": [("C01", "C01|R3")]},
    {"name": "c01-remove-skips-first-key",
     "edits": [("src/index/state.rs",
                """                for key in keys {""",
                """                for key in keys.iter().skip(1) {""")],
     "expect": [("C01", "C01|R2")]},
    {"name": "c01-remove-stops-at-absent-key",
     "edits": [("src/index/state.rs",
                """                for key in keys {
                    if let Some(item) = self.key_to_hash.remove(key)""",
                """                for key in keys {
                    if !self.key_to_hash.contains_key(key) {
                        break;
                    }
                    if let Some(item) = self.key_to_hash.remove(key)""")],
     "expect": [("C01", "C01|R2")]},
    {"name": "c01-range-count-from-second-scan",
     "edits": [("src/cas.rs",
                """        let keys_to_remove_count = keys_to_remove.len();
""",
                """        let keys_to_remove_count = self.index.read_state().len();
""")],
     "expect": [("C01", "C01|R1")]},
]

MUTANTS += [
    {"name": "c10-skip-checksum",
     "edits": [("src/wal/storage.rs",
                """        if actual != expected {
            return Err(WalError::ReplayChecksumMismatch { version, segment_id, expected, actual });
        }
""",
                """        if actual != expected {
            tracing::warn!(version, segment_id, "checksum mismatch in WAL entry");
        }
""")],
     "expect": [("C10", "C10|R1")]},
    {"name": "c10-hash-of-header",
     "edits": [("src/wal/storage.rs",
                """        let actual = calculate_blob_hash(&op_data);""",
                """        let actual = calculate_blob_hash(&header);""")],
     "expect": [("C10", "C10|R1")]},
    {"name": "c10-short-payload-ends-log",
     "edits": [("src/wal/storage.rs",
                """        self.file
            .read_exact(&mut op_data)
            .map_err(|e| replay_io(WalReplayIoStep::ReadOpData, e))?;
""",
                """        if let Err(e) = self.file.read_exact(&mut op_data) {
            if e.kind() == ErrorKind::UnexpectedEof {
                return Ok(None);
            }
            return Err(replay_io(WalReplayIoStep::ReadOpData, e));
        }
""")],
     "expect": [("C10", "C10|R2")]},
    {"name": "c10-iterator-ends-on-error",
     "edits": [("src/wal/storage.rs",
                """            Err(e) => Some(Err(e)),""",
                """            Err(e) => {
                tracing::error!("WAL read error: {e}");
                None
            }""")],
     "expect": [("C10", "C10|R3")]},
    {"name": "c10-replay-stops-quietly",
     "edits": [("src/wal/replay.rs",
                """                let entry = entry?;""",
                """                let Ok(entry) = entry else {
                    break;
                };""")],
     "expect": [("C10", "C10|R3")]},
    {"name": "c10-apply-before-key-conversion",
     "edits": [("src/wal/replay.rs",
                """                let op = WalOp::from_raw(raw).map_err(|e| WalError::ReplayConvertWalOp {
                    version: entry.version,
                    segment_id: seg.id,
                    source: e,
                })?;

                apply_op_fn(op);""",
                """                let Ok(op) = WalOp::from_raw(raw) else {
                    continue;
                };

                apply_op_fn(op);""")],
     "expect": [("C02", "C02|R6")]},
    {"name": "c14-ignore-unlink-error",
     "edits": [("src/cas_manager.rs",
                """            match std::fs::remove_file(&file_path) {
                Ok(_) => {""",
                """            let _ = std::fs::remove_file(&file_path);
            match Ok::<(), std::io::Error>(()) {
                Ok(_) => {""")],
     "expect": [("C14", "C14|R1")]},
    {"name": "c14-unwrap-segment-open",
     "edits": [("src/wal/storage.rs",
                """        let file =
            OpenOptions::new().create(true).append(true).open(&path).map_err(|e| WalError::Io {
                operation: WalIoOperation::OpenSegmentWrite,
                path: Some(path),
                source: e,
            })?;""",
                """        let file = OpenOptions::new().create(true).append(true).open(&path).unwrap();""")],
     "expect": [("C14", "C14|R2")]},
    {"name": "c14-apply-despite-append-failure",
     "edits": [("src/index/manager.rs",
                """        let append_info = wal.append_op(&serialized)?;

        let unreferenced = state.apply_logical_op(logical_op).expect("Index is corrupted");
""",
                """        let appended = wal.append_op(&serialized);

        let unreferenced = state.apply_logical_op(logical_op).expect("Index is corrupted");
        let append_info = appended?;
""")],
     "expect": [("C14", "C14|R3")]},
    {"name": "c14-version-rolled-back-on-error",
     "edits": [("src/wal/manager.rs",
                """        writer.write_entry(version, op_hash, op_data)?;
""",
                """        if let Err(e) = writer.write_entry(version, op_hash, op_data) {
            self.next_op_version = version;
            return Err(e);
        }
""")],
     "expect": [("C14", "C14|R6")]},
    {"name": "c14-ignore-snapshot-error",
     "edits": [("src/index/manager.rs",
                """        let serialized_len = IndexStatePersister::new(&self.paths).save(snapshot)?;""",
                """        let serialized_len = IndexStatePersister::new(&self.paths).save(snapshot).unwrap_or(0);""")],
     "expect": [("C09", "C09|R4"), ("C03", "C03|R2")]},
    {"name": "c16-preallocate-from-input",
     "edits": [("src/serialization.rs",
                """            let mut keys_bytes = Vec::new();
            for _ in 0..num_keys {""",
                """            let mut keys_bytes = Vec::with_capacity(num_keys);
            for _ in 0..num_keys {""")],
     "expect": [("C16", "C16|R2")]},
    {"name": "c16-big-endian-decode",
     "edits": [("src/types.rs",
                """                Self::Bytes::try_from(bytes).map(<$ty>::from_le_bytes).ok()""",
                """                Self::Bytes::try_from(bytes).map(<$ty>::from_be_bytes).ok()""")],
     "expect": [("C16", "C16|R5")]},
    {"name": "c16-snapshot-size-before-hash",
     "edits": [("src/serialization.rs",
                """        // write hash (always 32 bytes)
        result.extend_from_slice(item.blob_hash.as_bytes());

        // write data size (8 bytes, LE)
        result.extend_from_slice(&item.blob_size.to_le_bytes());""",
                """        // write data size (8 bytes, LE)
        result.extend_from_slice(&item.blob_size.to_le_bytes());

        // write hash (always 32 bytes)
        result.extend_from_slice(item.blob_hash.as_bytes());""")],
     "expect": [("C16", "C16|R3")]},
    {"name": "c16-tags-swapped-in-encoder",
     "edits": [("src/serialization.rs",
                """            // variant tag
            result.push(0);

            // key length and bytes""",
                """            // variant tag
            result.push(1);

            // key length and bytes"""),
               ("src/serialization.rs",
                """            // variant tag
            result.push(1);

            // serialize the keys""",
                """            // variant tag
            result.push(0);

            // serialize the keys""")],
     "expect": [("C16", "C16|R4")]},
    {"name": "c16-unchecked-index-in-decoder",
     "edits": [("src/serialization.rs",
                """    let (value, rest) =
        bytes.split_first().ok_or(SerializationError::UnexpectedEof { parsing_context })?;
    *bytes = rest;
    Ok(*value)""",
                """    let _ = parsing_context;
    let value = bytes[0];
    *bytes = &bytes[1..];
    Ok(value)""")],
     "expect": [("C16", "C16|R1")]},
    {"name": "c16-key-len-u16",
     "edits": [("src/serialization.rs",
                """            // key length and bytes
            let key_len = key_bytes.len() as u32;
            result.extend_from_slice(&key_len.to_le_bytes());""",
                """            // key length and bytes
            let key_len = key_bytes.len() as u16;
            result.extend_from_slice(&key_len.to_le_bytes());""")],
     "expect": [("C16", "C16|R3")]},
]

MUTANTS += [
    {"name": "c20-open-writer-truncates",
     "edits": [("src/wal/storage.rs",
                """OpenOptions::new().create(true).append(true).open(&path)""",
                """OpenOptions::new().create(true).write(true).truncate(true).open(&path)""")],
     "expect": [("C20", "C20|R1")]},
    {"name": "c20-version-restarts-after-replay",
     "edits": [("src/wal/manager.rs",
                """        self.next_op_version = match highest_op_version {
            Some(v) => v.saturating_add(1),
            None => FIRST_OP_VERSION,
        };""",
                """        let _ = highest_op_version;
        self.next_op_version = FIRST_OP_VERSION;""")],
     "expect": [("C20", "C20|R2"), ("C14", "C14|R6")]},
    {"name": "c20-writer-for-next-segment",
     "edits": [("src/wal/manager.rs",
                """            self.active_writer = Some(self.storage.open_writer(target_segment_id)?);""",
                """            self.active_writer = Some(self.storage.open_writer(target_segment_id + 1)?);""")],
     "expect": [("C20", "C20|R3")]},
    {"name": "c20-prune-including-bound",
     "edits": [("src/wal/storage.rs",
                """            if segment.id < checkpointed_segment_id {""",
                """            if segment.id <= checkpointed_segment_id {""")],
     "expect": [("C20", "C20|R5")]},
    {"name": "c20-seal-on-drop",
     "edits": [("src/wal/manager.rs",
                """            && let Err(e) = writer.close()""",
                """            && let Err(e) = writer.seal()""")],
     "expect": [("C20", "C20|R6")]},
    {"name": "c20-checksum-of-version",
     "edits": [("src/wal/manager.rs",
                """        let op_hash = calculate_blob_hash(op_data);""",
                """        let op_hash = calculate_blob_hash(&version.get().to_le_bytes());""")],
     "expect": [("C20", "C20|R3")]},
    {"name": "c20-prune-bound-from-next-version",
     "edits": [("src/wal/manager.rs",
                """        let last_checkpointed_segment = self.segment_id_for_op_version(version.get());""",
                """        let _ = version;
        let last_checkpointed_segment = self.segment_id_for_op_version(self.next_op_version.get());""")],
     "expect": [("C20", "C20|R5")]},
]

MUTANTS += [
    {"name": "c17-end-not-clamped",
     "edits": [("src/cas.rs",
                """            let range_end = std::cmp::min(range_end, item.blob_size);
""", "")],
     "expect": [("C17", "C17|R1")]},
    {"name": "c17-no-start-beyond-size-check",
     "edits": [("src/cas.rs",
                """            if range_start >= item.blob_size {
                return Ok(bytes::Bytes::new());
            }
""", "")],
     "expect": [("C17", "C17|R1")]},
    {"name": "c17-no-inverted-range-check",
     "edits": [("src/cas_manager.rs",
                """        if range_start > range_end {
            return Err(CasManagerError::InvalidRangeStartEnd {
                start: range_start,
                end: range_end,
            });
        }
""", "")],
     "expect": [("C17", "C17|R2")]},
    {"name": "c17-inverted-check-polarity",
     "edits": [("src/cas_manager.rs",
                """        if range_start > range_end {
            return Err(CasManagerError::InvalidRangeStartEnd {""",
                """        if range_start >= range_end && range_start != range_end + 0 {
            return Err(CasManagerError::InvalidRangeStartEnd {""")],
     "expect": []},
    {"name": "c17-offset-not-advanced",
     "edits": [("src/cas_manager.rs",
                """            current_offset += bytes_read as u64;
""", "")],
     "expect": [("C17", "C17|R4")]},
    {"name": "c17-advance-by-requested",
     "edits": [("src/cas_manager.rs",
                """            total_bytes_read += bytes_read;""",
                """            total_bytes_read += remaining;""")],
     "expect": [("C17", "C17|R4")]},
    {"name": "c17-read-whole-spare",
     "edits": [("src/cas_manager.rs",
                """            let remaining = std::cmp::min(spare.len(), read_len as usize - total_bytes_read);""",
                """            let remaining = spare.len();""")],
     "expect": [("C17", "C17|R4")]},
    {"name": "c18-hash-only-a-prefix",
     "edits": [("src/transaction.rs",
                """        self.hasher.update(data);""",
                """        self.hasher.update(&data[..data.len().min(1 << 20)]);""")],
     "expect": [("C18", "C18|R1")]},
    {"name": "c18-count-calls-not-bytes",
     "edits": [("src/transaction.rs",
                """        self.size += data.len() as u64;""",
                """        self.size += 1;""")],
     "expect": [("C18", "C18|R1")]},
    {"name": "c18-write-skipped-for-empty-tail",
     "edits": [("src/transaction.rs",
                """        self.writer.write_all(data).map_err(|e| TransactionError::StagingFileIo {""",
                """        self.writer.write(data).map(|_| ()).map_err(|e| TransactionError::StagingFileIo {""")],
     "expect": [("C18", "C18|R1")]},
    {"name": "c18-components-overlap",
     "edits": [("src/types.rs",
                """        let truncated_filename = &hex[4..];""",
                """        let truncated_filename = &hex[2..];""")],
     "expect": [("C18", "C18|R4")]},
    {"name": "c18-components-swapped",
     "edits": [("src/types.rs",
                """        PathBuf::from(top_level_dir).join(second_level_dir).join(truncated_filename)""",
                """        PathBuf::from(second_level_dir).join(top_level_dir).join(truncated_filename)""")],
     "expect": [("C18", "C18|R4")]},
    {"name": "c18-parse-order",
     "edits": [("src/types.rs",
                """        for component in [first, second, third] {""",
                """        for component in [second, first, third] {""")],
     "expect": [("C18", "C18|R4")]},
    {"name": "c18-intent-gets-other-hash",
     "edits": [("src/transaction.rs",
                """IntentMeta { blob_hash, blob_size: self.size })""",
                """IntentMeta { blob_hash: crate::calculate_blob_hash(&self.size.to_le_bytes()), blob_size: self.size })""")],
     "expect": [("C18", "C18|R2")]},
]

MUTANTS += [
    {"name": "c07-decrement-on-same-hash",
     "edits": [("src/index/state.rs",
                """                    Some(prev) => {
                        // Same blob hash: refcounts unchanged.""",
                """                    Some(prev) => {
                        if let Some(h) = self.decrement_ref(&prev.blob_hash)? {
                            unreferenced_hashes.push(h);
                        }
                        // Same blob hash: refcounts unchanged.""")],
     "expect": [("C07", "C07|R2")]},
    {"name": "c07-no-decrement-on-repoint",
     "edits": [("src/index/state.rs",
                """                        if let Some(h) = self.decrement_ref(&prev.blob_hash)? {
                            unreferenced_hashes.push(h);
                            self.stats.cas.unique_blobs -= 1;
                            self.stats.cas.total_bytes -= prev.blob_size;
                        }

                        // 2) increment new""",
                """                        let _ = &prev;

                        // 2) increment new""")],
     "expect": [("C07", "C07|R2")]},
    {"name": "c07-zero-not-collected-on-remove",
     "edits": [("src/index/state.rs",
                """                    {
                        unreferenced_hashes.push(h);
                        self.stats.cas.unique_blobs -= 1;
                        self.stats.cas.total_bytes -= item.blob_size;
                    }""",
                """                    {
                        let _ = h;
                        self.stats.cas.unique_blobs -= 1;
                        self.stats.cas.total_bytes -= item.blob_size;
                    }""")],
     "expect": [("C07", "C07|R2")]},
    {"name": "c07-decrement-keeps-zero-entries",
     "edits": [("src/index/state.rs",
                """                if *count == 0 {
                    self.hash_to_ref_count.remove(hash_to_decrement);
                    Ok(Some(*hash_to_decrement))
                } else {
                    Ok(None)
                }""",
                """                if *count == 0 {
                    Ok(Some(*hash_to_decrement))
                } else {
                    Ok(None)
                }""")],
     "expect": [("C07", "C07|R2")]},
    {"name": "c07-delete-only-when-many",
     "edits": [("src/index/manager.rs",
                """        // Delete blobs BEFORE any checkpoint
        if !unreferenced_from_op.is_empty() {
            delete_fn(&unreferenced_from_op).map_err(|e| IndexError::BlobDeletion { source: e })?;
        }

        drop(intents);

        if rolled_over {
            let mut state = self.state.write();
            let mut wal = self.wal.lock();
            self.checkpoint_inner(CheckpointReason::SegmentRollover, &mut wal, &mut state)?;
        }

        Ok(())
    }

    fn checkpoint_inner(""",
                """        // Delete blobs BEFORE any checkpoint
        if unreferenced_from_op.len() > 1 {
            delete_fn(&unreferenced_from_op).map_err(|e| IndexError::BlobDeletion { source: e })?;
        }

        drop(intents);

        if rolled_over {
            let mut state = self.state.write();
            let mut wal = self.wal.lock();
            self.checkpoint_inner(CheckpointReason::SegmentRollover, &mut wal, &mut state)?;
        }

        Ok(())
    }

    fn checkpoint_inner(""")],
     "expect": [("C07", "C07|R1")]},
    {"name": "c07-unlink-errors-swallowed",
     "edits": [("src/cas_manager.rs",
                """                Err(e) => {
                    return Err(CasManagerError::FileOperation {
                        operation: CasIoOperation::RemoveFile,
                        path: file_path,
                        source: e,
                    });
                }""",
                """                Err(e) => {
                    tracing::warn!("could not delete {}: {e}", file_path.display());
                }""")],
     "expect": [("C07", "C07|R4")]},
    {"name": "c12-bytes-of-new-size-on-death",
     "edits": [("src/index/state.rs",
                """                            self.stats.cas.total_bytes -= prev.blob_size;""",
                """                            self.stats.cas.total_bytes -= *size;""")],
     "expect": [("C12", "C12|R2")]},
    {"name": "c12-unique-bumped-always",
     "edits": [("src/index/state.rs",
                """                        // New key → bump refcount of the new hash.
                        if self.increment_ref(hash) {
                            self.stats.cas.unique_blobs += 1;
                            self.stats.cas.total_bytes += *size;
                        }""",
                """                        // New key → bump refcount of the new hash.
                        self.increment_ref(hash);
                        self.stats.cas.unique_blobs += 1;
                        self.stats.cas.total_bytes += *size;""")],
     "expect": [("C12", "C12|R2")]},
    {"name": "c12-refcount-touched-by-manager",
     "edits": [("src/index/manager.rs",
                """        let unreferenced = state.apply_logical_op(logical_op).expect("Index is corrupted");
""",
                """        let unreferenced = state.apply_logical_op(logical_op).expect("Index is corrupted");
        state.hash_to_ref_count.retain(|_, c| *c > 0);
""")],
     "expect": [("C12", "C12|R1")]},
    {"name": "c12-recompute-counts-keys",
     "edits": [("src/index/state.rs",
                """        let unique_blobs = unique.len() as u64;""",
                """        let unique_blobs = self.key_to_hash.len() as u64;""")],
     "expect": []},
]

BENIGN = [
    {"name": "b01-rename-fn-and-local",
     "edits": [],
     "sed": [("src/index/manager.rs", "apply_wal_op_unsafe", "log_then_apply"), ("src/index/manager.rs", "unreferenced_from_op", "dead_hashes")]},
    {"name": "b02-reorder-independent-statements",
     "edits": [("src/transaction.rs",
                """        self.size += data.len() as u64;
        self.hasher.update(data);""",
                """        self.hasher.update(data);
        self.size += data.len() as u64;""")]},
    {"name": "b03-if-to-match",
     "edits": [("src/cas.rs",
                """        if self.index.read_state().contains_key(key) {
            let delete_fn = |hashes: &[BlobHash]| -> Result<(), CasManagerError> {
                self.cas_manager.delete_blobs(hashes).map(|_| ())
            };

            self.index.apply_remove_op(vec![key.clone()], &delete_fn).map_err(LibError::Index)?;
            Ok(true)
        } else {
            Ok(false)
        }""",
                """        let present = self.index.read_state().contains_key(key);
        match present {
            true => {
                let delete_fn = |hashes: &[BlobHash]| -> Result<(), CasManagerError> {
                    self.cas_manager.delete_blobs(hashes).map(|_| ())
                };

                self.index.apply_remove_op(vec![key.clone()], &delete_fn).map_err(LibError::Index)?;
                Ok(true)
            }
            false => Ok(false),
        }""")]},
    {"name": "b04-min-to-conditional",
     "edits": [("src/cas.rs",
                """            let range_end = std::cmp::min(range_end, item.blob_size);""",
                """            let range_end = if range_end > item.blob_size { item.blob_size } else { range_end };""")]},
    {"name": "b05-question-mark-to-match",
     "edits": [("src/wal/storage.rs",
                """        self.writer.flush().map_err(|e| WalError::Io {
            operation: WalIoOperation::FlushWriter,
            path: None,
            source: e,
        })?;
        self.writer.get_ref().sync_data()""",
                """        match self.writer.flush() {
            Ok(()) => {}
            Err(e) => {
                return Err(WalError::Io { operation: WalIoOperation::FlushWriter, path: None, source: e });
            }
        }
        self.writer.get_ref().sync_data()""")]},
    {"name": "b06-scope-instead-of-drop",
     "edits": [("src/orphan.rs",
                """        let blob_path = self.cas_inner.paths.cas_file_path(hash);
        let _intents = self.cas_inner.index.pending_intents.lock();
        let state = self.cas_inner.index.read_state();
        let still_referenced = state.contains_blob_hash(hash);
        let has_intent = self.cas_inner.index.has_live_intent(hash);
        drop(state);
""",
                """        let blob_path = self.cas_inner.paths.cas_file_path(hash);
        let _intents = self.cas_inner.index.pending_intents.lock();
        let (still_referenced, has_intent) = {
            let state = self.cas_inner.index.read_state();
            (state.contains_blob_hash(hash), self.cas_inner.index.has_live_intent(hash))
        };
""")]},
    {"name": "b07-more-logging-and-error-text",
     "edits": [("src/cas_manager.rs",
                """        let final_cas_path = self.paths.cas_file_path(blob_hash);""",
                """        let final_cas_path = self.paths.cas_file_path(blob_hash);
        tracing::trace!(staging = %staging_path.display(), target = %final_cas_path.display(), "publishing blob");"""),
               ("src/cas.rs",
                """    #[error("Db instance is already in use")]""",
                """    #[error("Database directory is locked by another handle")]""")]},
    {"name": "b08-new-readonly-api",
     "edits": [("src/cas.rs",
                """    /// Returns root path of db provided at initialization""",
                """    /// Number of keys currently stored.
    #[must_use]
    pub fn key_count(&self) -> usize {
        self.index.read_state().len()
    }

    /// Whether the given key is present.
    pub fn contains(&self, key: &K) -> bool
    where
        K: Ord,
    {
        self.index.read_state().contains_key(key)
    }

    /// Returns root path of db provided at initialization""")]},
    {"name": "b09-rename-field",
     "sed": [("src/index/manager.rs", "pending_intents", "intents_by_key"), ("src/orphan.rs", "pending_intents", "intents_by_key"),
             ("src/cas.rs", "pending_intents", "intents_by_key")],
     "edits": []},
    {"name": "b10-extract-filter-helper",
     "edits": [("src/index/manager.rs",
                """        // Remove any unreferenced hashes that are still referenced by intents
        unreferenced_from_op.retain(|hash| !self.has_live_intent(hash));
""",
                """        // Remove any unreferenced hashes that are still referenced by intents
        self.keep_only_dead(&mut unreferenced_from_op);
"""),
               ("src/index/manager.rs",
                """    fn release_live_hash(&self, hash: &BlobHash) {""",
                """    /// Drops from `hashes` everything an in-flight commit still needs. Call with `pending_intents` held.
    fn keep_only_dead(&self, hashes: &mut Vec<BlobHash>) {
        hashes.retain(|hash| !self.has_live_intent(hash));
    }

    fn release_live_hash(&self, hash: &BlobHash) {""")]},
    {"name": "b11-move-fn-to-other-module",
     "edits": [("src/cas.rs",
                """#[must_use]
pub fn calculate_blob_hash(blob_data: &[u8]) -> BlobHash {
    BlobHash(blake3::hash(blob_data).into())
}
""",
                """pub use crate::types::calculate_blob_hash;
"""),
               ("src/types.rs",
                """impl PartialEq for BlobHash {""",
                """#[must_use]
pub fn calculate_blob_hash(blob_data: &[u8]) -> BlobHash {
    BlobHash(blake3::hash(blob_data).into())
}

impl PartialEq for BlobHash {""")]},
    {"name": "b12-let-else-to-match",
     "edits": [("src/cas.rs",
                """            let Some(item) = state.get_item(key) else {
                return Ok(None);
            };
            let file = self.cas_manager.open_blob(&item.blob_hash);""",
                """            let item = match state.get_item(key) {
                Some(item) => item,
                None => return Ok(None),
            };
            let file = self.cas_manager.open_blob(&item.blob_hash);""")]},
    {"name": "b13-capacity-hints",
     "edits": [("src/index/state.rs",
                """        let mut unreferenced_hashes = Vec::new();""",
                """        let mut unreferenced_hashes = Vec::with_capacity(2);"""),
               ("src/serialization.rs",
                """pub(crate) fn serialize_wal_op_raw(op: &WalOpRaw) -> Result<Vec<u8>, SerializationError> {
    let mut result = Vec::new();""",
                """pub(crate) fn serialize_wal_op_raw(op: &WalOpRaw) -> Result<Vec<u8>, SerializationError> {
    let mut result = Vec::with_capacity(64);""")]},
    {"name": "b14-inline-fdatasync-helper-name",
     "sed": [("src/cas.rs", "pub(crate) fn fdatasync", "pub(crate) fn sync_staged"), ("src/transaction.rs", "cas_inner.fdatasync", "cas_inner.sync_staged")],
     "edits": []},
    {"name": "b15-shared-tail-helper",
     "edits": [("src/index/manager.rs",
                """        // Remove any unreferenced hashes that are still referenced by intents
        unreferenced_from_op.retain(|hash| !self.has_live_intent(hash));

        // Delete blobs BEFORE any checkpoint
        if !unreferenced_from_op.is_empty() {
            delete_fn(&unreferenced_from_op).map_err(|e| IndexError::BlobDeletion { source: e })?;
        }

        drop(intents);

        if rolled_over {
            let mut state = self.state.write();
            let mut wal = self.wal.lock();
            self.checkpoint_inner(CheckpointReason::SegmentRollover, &mut wal, &mut state)?;
        }

        Ok(())
    }

    fn checkpoint_inner(""",
                """        // Remove any unreferenced hashes that are still referenced by intents
        unreferenced_from_op.retain(|hash| !self.has_live_intent(hash));

        // Delete blobs BEFORE any checkpoint
        if !unreferenced_from_op.is_empty() {
            delete_fn(&unreferenced_from_op).map_err(|e| IndexError::BlobDeletion { source: e })?;
        }

        drop(intents);

        self.checkpoint_if_rolled_over(rolled_over)
    }

    fn checkpoint_if_rolled_over(&self, rolled_over: bool) -> Result<(), IndexError> {
        if rolled_over {
            let mut state = self.state.write();
            let mut wal = self.wal.lock();
            self.checkpoint_inner(CheckpointReason::SegmentRollover, &mut wal, &mut state)?;
        }
        Ok(())
    }

    fn checkpoint_inner(""")]},
    {"name": "b16-sync-all-instead-of-sync-data",
     "edits": [("src/io.rs", """    temp_file.sync_data().map_err""", """    temp_file.sync_all().map_err""")]},
    {"name": "b17-explicit-return-and-temp",
     "edits": [("src/wal/manager.rs",
                """        let writer = self.active_writer.as_mut().unwrap();
        let op_hash = calculate_blob_hash(op_data);
        writer.write_entry(version, op_hash, op_data)?;

        Ok(WalAppendInfo { version, op_hash })""",
                """        let op_hash = calculate_blob_hash(op_data);
        let writer = self.active_writer.as_mut().unwrap();
        let outcome = writer.write_entry(version, op_hash, op_data);
        outcome?;

        let info = WalAppendInfo { version, op_hash };
        return Ok(info);""")]},
]

BENIGN += [
    {"name": "b19-merge-put-and-remove-apply",
     "edits": [("src/index/manager.rs",
                """        let logical_op = WalOp::Put { key: key.clone(), hash, size };
        let mut intents = self.pending_intents.lock();

        let (mut unreferenced_from_op, rolled_over) = {
            let mut state = self.state.write();
            let mut wal = self.wal.lock();
            let (hashes, _append_info, rolled) =
                Self::apply_wal_op_unsafe(&mut state, &mut wal, &logical_op)?;
            (hashes, rolled)
        };

        // Only drop the by-key entry if it is ours; a concurrent commit on the same key may
        // have replaced it.
        if intents.get(&key) == Some(&hash) {
            intents.remove(&key);
        }

        // Filter out any unreferenced hashes that are still referenced by other intents
        unreferenced_from_op.retain(|hash| !self.has_live_intent(hash));

        // Delete blobs BEFORE any checkpoint
        if !unreferenced_from_op.is_empty() {
            delete_fn(&unreferenced_from_op).map_err(|e| IndexError::BlobDeletion { source: e })?;
        }

        drop(intents);

        if rolled_over {
            let mut state = self.state.write();
            let mut wal = self.wal.lock();
            self.checkpoint_inner(CheckpointReason::SegmentRollover, &mut wal, &mut state)?;
        }

        Ok(())
    }
""",
                """        let logical_op = WalOp::Put { key: key.clone(), hash, size };
        self.apply_op(logical_op, Some((key, hash)), delete_fn)
    }

    fn apply_op(
        &self,
        logical_op: WalOp<K>,
        own_intent: Option<(K, BlobHash)>,
        delete_fn: &crate::types::DeleteBlobCallFn,
    ) -> Result<(), IndexError> {
        let mut intents = self.pending_intents.lock();

        let (mut unreferenced_from_op, rolled_over) = {
            let mut state = self.state.write();
            let mut wal = self.wal.lock();
            let (hashes, _append_info, rolled) =
                Self::apply_wal_op_unsafe(&mut state, &mut wal, &logical_op)?;
            (hashes, rolled)
        };

        // Only drop the by-key entry if it is ours; a concurrent commit on the same key may
        // have replaced it.
        if let Some((key, hash)) = own_intent
            && intents.get(&key) == Some(&hash)
        {
            intents.remove(&key);
        }

        // Filter out any unreferenced hashes that are still referenced by other intents
        unreferenced_from_op.retain(|hash| !self.has_live_intent(hash));

        // Delete blobs BEFORE any checkpoint
        if !unreferenced_from_op.is_empty() {
            delete_fn(&unreferenced_from_op).map_err(|e| IndexError::BlobDeletion { source: e })?;
        }

        drop(intents);

        if rolled_over {
            let mut state = self.state.write();
            let mut wal = self.wal.lock();
            self.checkpoint_inner(CheckpointReason::SegmentRollover, &mut wal, &mut state)?;
        }

        Ok(())
    }
"""),
               ("src/index/manager.rs",
                """        let logical_op = WalOp::Remove { keys };
        let intents = self.pending_intents.lock();

        let (mut unreferenced_from_op, rolled_over) = {
            let mut state = self.state.write();
            let mut wal = self.wal.lock();
            let (hashes, _append_info, rolled) =
                Self::apply_wal_op_unsafe(&mut state, &mut wal, &logical_op)?;
            (hashes, rolled)
        };

        // Remove any unreferenced hashes that are still referenced by intents
        unreferenced_from_op.retain(|hash| !self.has_live_intent(hash));

        // Delete blobs BEFORE any checkpoint
        if !unreferenced_from_op.is_empty() {
            delete_fn(&unreferenced_from_op).map_err(|e| IndexError::BlobDeletion { source: e })?;
        }

        drop(intents);

        if rolled_over {
            let mut state = self.state.write();
            let mut wal = self.wal.lock();
            self.checkpoint_inner(CheckpointReason::SegmentRollover, &mut wal, &mut state)?;
        }

        Ok(())
    }
""",
                """        let logical_op = WalOp::Remove { keys };
        self.apply_op(logical_op, None, delete_fn)
    }
""")]},
    {"name": "b20-inline-append-and-apply",
     "edits": [("src/index/manager.rs",
                """        let (mut unreferenced_from_op, rolled_over) = {
            let mut state = self.state.write();
            let mut wal = self.wal.lock();
            let (hashes, _append_info, rolled) =
                Self::apply_wal_op_unsafe(&mut state, &mut wal, &logical_op)?;
            (hashes, rolled)
        };

        // Remove any unreferenced hashes that are still referenced by intents""",
                """        let (mut unreferenced_from_op, rolled_over) = {
            let mut state = self.state.write();
            let mut wal = self.wal.lock();
            let pre_append_segment_id = wal.get_segment_id_for_previous_op();
            let serialized = crate::serialization::serialize_wal_op_raw(&logical_op.to_raw())
                .map_err(IndexError::SerializeWalOp)?;
            let append_info = wal.append_op(&serialized)?;
            let hashes = state.apply_logical_op(&logical_op).expect("Index is corrupted");
            let post_append_segment_id = wal.segment_id_for_op_version(append_info.version.get());
            (hashes, pre_append_segment_id != post_append_segment_id)
        };

        // Remove any unreferenced hashes that are still referenced by intents""")]},
    {"name": "b22-extract-make-durable-helper",
     "edits": [("src/transaction.rs",
                """        let file_to_sync = self.writer.into_inner().map_err(|e| crate::LibError::Io {
            operation: LibIoOperation::CommitFlushWriter,
            path: None,
            source: e.into_error(),
        })?;
        self.cas_inner.fdatasync(file_to_sync)?;

        let blob_hash = BlobHash::from_bytes(*self.hasher.finalize().as_bytes());
""",
                """        let Transaction { temp_file, cas_inner, writer, hasher, size, key } = self;
        Self::make_durable(cas_inner, writer)?;
        let self_ = Staged { temp_file, cas_inner, hasher, size, key };
        let blob_hash = BlobHash::from_bytes(*self_.hasher.finalize().as_bytes());
        return Self::publish_and_apply(self_, blob_hash);
    }

    fn make_durable(cas_inner: &CasInner<K>, writer: BufWriter<File>) -> Result<(), crate::LibError> {
        use crate::LibIoOperation;
        let file_to_sync = writer.into_inner().map_err(|e| crate::LibError::Io {
            operation: LibIoOperation::CommitFlushWriter,
            path: None,
            source: e.into_error(),
        })?;
        cas_inner.fdatasync(file_to_sync)
    }

    fn publish_and_apply(self_: Staged<'a, K>, blob_hash: crate::types::BlobHash) -> Result<(), crate::LibError> {
        use crate::types::BlobHash;
        let self_ = self_;
"""),
               ("src/transaction.rs",
                """pub struct Transaction<'a, K> {""",
                """struct Staged<'a, K> {
    temp_file: NamedTempFile,
    cas_inner: &'a CasInner<K>,
    hasher: blake3::Hasher,
    size: u64,
    key: K,
}

pub struct Transaction<'a, K> {""")],
     "sed": [("src/transaction.rs", "            .register_intent(self.key.clone(), IntentMeta { blob_hash, blob_size: self.size })",
              "            .register_intent(self_.key.clone(), IntentMeta { blob_hash, blob_size: self_.size })"),
             ("src/transaction.rs", "        let intent_guard = self\n            .cas_inner", "        let intent_guard = self_\n            .cas_inner"),
             ("src/transaction.rs", 'tracing::debug!(%blob_hash, key = ?self.key, "Committing transaction");', 'tracing::debug!(%blob_hash, key = ?self_.key, "Committing transaction");'),
             ("src/transaction.rs", "        let _cas_path = self\n            .cas_inner", "        let _cas_path = self_\n            .cas_inner"),
             ("src/transaction.rs", ".commit_blob(self.temp_file.path(), &blob_hash)", ".commit_blob(self_.temp_file.path(), &blob_hash)"),
             ("src/transaction.rs", "            self.cas_inner.cas_manager.delete_blobs(hashes).map(|_| ())", "            self_.cas_inner.cas_manager.delete_blobs(hashes).map(|_| ())")]},
    {"name": "b32-extract-make-durable-only",
     "edits": [("src/transaction.rs",
                """        let file_to_sync = self.writer.into_inner().map_err(|e| crate::LibError::Io {
            operation: LibIoOperation::CommitFlushWriter,
            path: None,
            source: e.into_error(),
        })?;
        self.cas_inner.fdatasync(file_to_sync)?;
""",
                """        Self::make_durable(self.cas_inner, self.writer)?;
"""),
               ("src/transaction.rs",
                """    fn commit(self) -> Result<(), crate::LibError> {""",
                """    fn make_durable(cas_inner: &CasInner<K>, writer: BufWriter<File>) -> Result<(), crate::LibError> {
        use crate::LibIoOperation;
        let file_to_sync = writer.into_inner().map_err(|e| crate::LibError::Io {
            operation: LibIoOperation::CommitFlushWriter,
            path: None,
            source: e.into_error(),
        })?;
        cas_inner.fdatasync(file_to_sync)
    }

    fn commit(self) -> Result<(), crate::LibError> {""")]},
    {"name": "b33-extract-publish-and-apply-helper",
     "edits": [("src/transaction.rs",
                """        // Register intent - returns a guard that will cleanup on drop if not committed
""",
                """        Self::publish_and_apply(self.cas_inner, &self.temp_file, &self.key, self.size, blob_hash)
    }

    fn publish_and_apply(
        cas_inner: &CasInner<K>,
        temp_file: &NamedTempFile,
        key: &K,
        size: u64,
        blob_hash: crate::types::BlobHash,
    ) -> Result<(), crate::LibError> {
        use crate::types::BlobHash;
        // Register intent - returns a guard that will cleanup on drop if not committed
""")],
     "sed": [("src/transaction.rs", "        let intent_guard = self\n            .cas_inner", "        let intent_guard = cas_inner"),
             ("src/transaction.rs", "            .register_intent(self.key.clone(), IntentMeta { blob_hash, blob_size: self.size })",
              "            .register_intent(key.clone(), IntentMeta { blob_hash, blob_size: size })"),
             ("src/transaction.rs", 'tracing::debug!(%blob_hash, key = ?self.key, "Committing transaction");', 'tracing::debug!(%blob_hash, key = ?key, "Committing transaction");'),
             ("src/transaction.rs", "        let _cas_path = self\n            .cas_inner", "        let _cas_path = cas_inner"),
             ("src/transaction.rs", ".commit_blob(self.temp_file.path(), &blob_hash)", ".commit_blob(temp_file.path(), &blob_hash)"),
             ("src/transaction.rs", "            self.cas_inner.cas_manager.delete_blobs(hashes).map(|_| ())", "            cas_inner.cas_manager.delete_blobs(hashes).map(|_| ())")]},
    {"name": "b23-extract-ensure-writer",
     "edits": [("src/wal/manager.rs",
                """        // check if we need to roll over to a new segment file.
        let must_rollover =
            self.active_writer.as_ref().is_none_or(|w| w.segment_id() != target_segment_id);
        if must_rollover {
            if let Some(old_writer) = self.active_writer.take() {
                // when rolling over, the old segment is permanently finished. seal it.
                old_writer.seal()?;
            }
            self.active_writer = Some(self.storage.open_writer(target_segment_id)?);
        }

        let writer = self.active_writer.as_mut().unwrap();
        let op_hash = calculate_blob_hash(op_data);
        writer.write_entry(version, op_hash, op_data)?;

        Ok(WalAppendInfo { version, op_hash })
    }
""",
                """        let op_hash = calculate_blob_hash(op_data);
        let writer = self.writer_for(target_segment_id)?;
        writer.write_entry(version, op_hash, op_data)?;

        Ok(WalAppendInfo { version, op_hash })
    }

    /// Returns the writer of `target_segment_id`, sealing the previous segment and opening the new one
    /// when the target differs from the active writer's segment.
    fn writer_for(&mut self, target_segment_id: u64) -> Result<&mut SegmentWriter, WalError> {
        // check if we need to roll over to a new segment file.
        let must_rollover =
            self.active_writer.as_ref().is_none_or(|w| w.segment_id() != target_segment_id);
        if must_rollover {
            if let Some(old_writer) = self.active_writer.take() {
                // when rolling over, the old segment is permanently finished. seal it.
                old_writer.seal()?;
            }
            self.active_writer = Some(self.storage.open_writer(target_segment_id)?);
        }
        Ok(self.active_writer.as_mut().unwrap())
    }
""")]},
    {"name": "b24-explicit-flush-before-into-inner",
     "edits": [("src/transaction.rs",
                """        let file_to_sync = self.writer.into_inner().map_err(|e| crate::LibError::Io {""",
                """        let mut writer = self.writer;
        std::io::Write::flush(&mut writer).map_err(|e| crate::LibError::Io {
            operation: LibIoOperation::CommitFlushWriter,
            path: None,
            source: e,
        })?;
        let file_to_sync = writer.into_inner().map_err(|e| crate::LibError::Io {""")]},
    {"name": "b27-orphan-liveness-helper",
     "edits": [("src/orphan.rs",
                """impl<K> OrphanStats<K> {
    /// Delete orphaned blobs""",
                """impl<K> OrphanStats<K> {
    /// Whether `hash` is referenced by the index or by an in-flight commit. Call with `pending_intents` held.
    fn is_live(&self, hash: &BlobHash) -> bool {
        let state = self.cas_inner.index.read_state();
        let still_referenced = state.contains_blob_hash(hash);
        drop(state);
        still_referenced || self.cas_inner.index.has_live_intent(hash)
    }

    /// Delete orphaned blobs"""),
               ("src/orphan.rs",
                """        let blob_path = self.cas_inner.paths.cas_file_path(hash);
        let _intents = self.cas_inner.index.pending_intents.lock();
        let state = self.cas_inner.index.read_state();
        let still_referenced = state.contains_blob_hash(hash);
        let has_intent = self.cas_inner.index.has_live_intent(hash);
        drop(state);

        if still_referenced || has_intent {
            return Ok(false);
        }
""",
                """        let blob_path = self.cas_inner.paths.cas_file_path(hash);
        let _intents = self.cas_inner.index.pending_intents.lock();
        if self.is_live(hash) {
            return Ok(false);
        }
""")]},
    {"name": "b29-open-without-recover-wrapper",
     "edits": [("src/cas.rs",
                """    pub fn open(db_root: impl AsRef<Path>, config: Config) -> Result<Self, LibError> {
        // Use open_with_recover internally and drop the stats
        let fail_on_integrity_errors = config.fail_on_integrity_errors;
        let (cas, orphan_stats) = Self::open_with_recover(db_root, config)?;
""",
                """    pub fn open(db_root: impl AsRef<Path>, config: Config) -> Result<Self, LibError> {
        let fail_on_integrity_errors = config.fail_on_integrity_errors;
        let (cas, orphan_stats) = Self::open_impl(db_root.as_ref(), config)?;
"""),
               ("src/cas.rs",
                """    ) -> Result<(Self, Option<OrphanStats<K>>), LibError> {
        let inner = CasInner::new(db_root.as_ref().to_path_buf(), config.clone())?;""",
                """    ) -> Result<(Self, Option<OrphanStats<K>>), LibError> {
        Self::open_impl(db_root.as_ref(), config)
    }

    fn open_impl(db_root: &Path, config: Config) -> Result<(Self, Option<OrphanStats<K>>), LibError> {
        let inner = CasInner::new(db_root.to_path_buf(), config.clone())?;""")]},
    {"name": "b30-lock-before-mkdirs",
     "edits": [("src/cas.rs",
                """        std::fs::create_dir_all(paths.staging_root_path()).map_err(|e| LibError::Io {
            operation: LibIoOperation::CreateStagingDir,
            path: Some(paths.staging_root_path().to_path_buf()),
            source: e,
        })?;
        std::fs::create_dir_all(paths.cas_root_path()).map_err(|e| LibError::Io {
            operation: LibIoOperation::CreateCasDir,
            path: Some(paths.cas_root_path().to_path_buf()),
            source: e,
        })?;

""",
                """        std::fs::create_dir_all(paths.db_root_path()).map_err(|e| LibError::Io {
            operation: LibIoOperation::CreateStagingDir,
            path: Some(paths.db_root_path().to_path_buf()),
            source: e,
        })?;

"""),
               ("src/cas.rs",
                """        lockfile.try_lock().map_err(|_e| LibError::AlreadyOpened)?;
""",
                """        lockfile.try_lock().map_err(|_e| LibError::AlreadyOpened)?;

        std::fs::create_dir_all(paths.staging_root_path()).map_err(|e| LibError::Io {
            operation: LibIoOperation::CreateStagingDir,
            path: Some(paths.staging_root_path().to_path_buf()),
            source: e,
        })?;
        std::fs::create_dir_all(paths.cas_root_path()).map_err(|e| LibError::Io {
            operation: LibIoOperation::CreateCasDir,
            path: Some(paths.cas_root_path().to_path_buf()),
            source: e,
        })?;
""")]},
    {"name": "b31-logging-drop-impl",
     "edits": [("src/cas.rs",
                """impl<K> Debug for CasInner<K>""",
                """impl<K> Drop for CasInner<K> {
    fn drop(&mut self) {
        tracing::debug!(root = %self.paths.db_root_path().display(), "closing database handle");
    }
}

impl<K> Debug for CasInner<K>""")]},
]


BENIGN += [
    {"name": "b34-take-bytes-explicit-length-check",
     "edits": [("src/serialization.rs",
                """    let (head, rest) = bytes.split_at_checked(len).ok_or(SerializationError::InsufficientData {
        entity,
        expected: len,
        found: bytes.len(),
        parsing_context,
    })?;
    *bytes = rest;
    Ok(head)""",
                """    if bytes.len() < len {
        return Err(SerializationError::InsufficientData {
            entity,
            expected: len,
            found: bytes.len(),
            parsing_context,
        });
    }
    let (head, rest) = bytes.split_at(len);
    *bytes = rest;
    Ok(head)""")]},
    {"name": "b35-wal-header-const-range-slices",
     "edits": [("src/wal/storage.rs",
                """        let (ver_s, rest) = header
            .split_at_checked(WAL_ENTRY_VERSION_SIZE)
            .ok_or_else(|| hdr_eof("missing version bytes in WAL header"))?;

        let (hash_s, rest) = rest
            .split_at_checked(WAL_ENTRY_OP_HASH_SIZE)
            .ok_or_else(|| hdr_eof("missing hash bytes in WAL header"))?;

        let (len_s, extra) = rest
            .split_at_checked(WAL_ENTRY_OP_LEN_SIZE)
            .ok_or_else(|| hdr_eof("missing op length bytes in WAL header"))?;

        if !extra.is_empty() {
            return Err(hdr_bad("extra bytes in WAL header"));
        }
""",
                """        let _ = &hdr_eof;
        let ver_s = &header[..WAL_ENTRY_VERSION_SIZE];
        let hash_s = &header[WAL_ENTRY_VERSION_SIZE..WAL_ENTRY_VERSION_SIZE + WAL_ENTRY_OP_HASH_SIZE];
        let len_s = &header[WAL_ENTRY_VERSION_SIZE + WAL_ENTRY_OP_HASH_SIZE..];
""")]},
    {"name": "b36-replay-loop-while-let",
     "edits": [("src/wal/replay.rs",
                """            for entry in reader {
                let entry = entry?;
                highest = match highest {
                    Some(prev) => Some(prev.max(entry.version)),
                    None => Some(entry.version),
                };

                // Skip already-checkpointed ops
                if checkpoint.is_some_and(|c| entry.version <= c) {
                    continue;
                }
""",
                """            let mut reader = reader;
            while let Some(entry) = reader.next() {
                let entry = entry?;
                if highest.is_none_or(|prev| entry.version > prev) {
                    highest = Some(entry.version);
                }

                // Skip already-checkpointed ops
                if let Some(c) = checkpoint {
                    if entry.version <= c {
                        continue;
                    }
                }
""")]},
    {"name": "b37-settings-validation-helpers",
     "edits": [("src/settings.rs",
                """                if settings.version != CURRENT_DB_VERSION {
                    return Err(SettingsError::UnsupportedVersion {
                        found: settings.version,
                        expected: CURRENT_DB_VERSION,
                    });
                }

                Ok(Some(settings))""",
                """                settings.check_version()?;
                Ok(Some(settings))"""),
               ("src/settings.rs",
                """impl SettingsPersister {
    pub fn new(settings_path: PathBuf) -> Self {""",
                """impl DbSettings {
    fn check_version(&self) -> Result<(), SettingsError> {
        if self.version == CURRENT_DB_VERSION {
            Ok(())
        } else {
            Err(SettingsError::UnsupportedVersion { found: self.version, expected: CURRENT_DB_VERSION })
        }
    }
}

impl SettingsPersister {
    pub fn new(settings_path: PathBuf) -> Self {"""),
               ("src/cas.rs",
                """                // Validate immutable settings
                if existing_settings.num_ops_per_wal != config.num_ops_per_wal {
                    return Err(LibError::Settings(SettingsError::ValidationFailed(format!(
                        "Cannot change num_ops_per_wal from {} to {} after database creation",
                        existing_settings.num_ops_per_wal, config.num_ops_per_wal
                    ))));
                }
                existing_settings.dir_tree_is_pre_created""",
                """                // Validate immutable settings
                check_immutable_settings(&existing_settings, &config)?;
                existing_settings.dir_tree_is_pre_created"""),
               ("src/cas.rs",
                """pub fn calculate_blob_hash(blob_data: &[u8]) -> BlobHash {""",
                """fn check_immutable_settings(existing: &DbSettings, config: &Config) -> Result<(), LibError> {
    if existing.num_ops_per_wal == config.num_ops_per_wal {
        return Ok(());
    }
    Err(LibError::Settings(SettingsError::ValidationFailed(format!(
        "Cannot change num_ops_per_wal from {} to {} after database creation",
        existing.num_ops_per_wal, config.num_ops_per_wal
    ))))
}

pub fn calculate_blob_hash(blob_data: &[u8]) -> BlobHash {""")]},
    {"name": "b38-extract-dir-lock-helper",
     "edits": [("src/cas.rs",
                """        let lockfile = std::fs::OpenOptions::new()
            .create(true)
            .truncate(true)
            .write(true)
            .open(paths.lockfile_path())
            .map_err(|e| LibError::Io {
                operation: LibIoOperation::CreateLockFile,
                path: Some(paths.lockfile_path().to_path_buf()),
                source: e,
            })?;

        lockfile.try_lock().map_err(|_e| LibError::AlreadyOpened)?;
""",
                """        let lockfile = acquire_dir_lock(&paths)?;
"""),
               ("src/cas.rs",
                """pub fn calculate_blob_hash(blob_data: &[u8]) -> BlobHash {""",
                """fn acquire_dir_lock(paths: &paths::DbPaths) -> Result<File, LibError> {
    let lockfile = std::fs::OpenOptions::new()
        .create(true)
        .truncate(true)
        .write(true)
        .open(paths.lockfile_path())
        .map_err(|e| LibError::Io {
            operation: LibIoOperation::CreateLockFile,
            path: Some(paths.lockfile_path().to_path_buf()),
            source: e,
        })?;
    match lockfile.try_lock() {
        Ok(()) => Ok(lockfile),
        Err(_e) => Err(LibError::AlreadyOpened),
    }
}

pub fn calculate_blob_hash(blob_data: &[u8]) -> BlobHash {""")]},
    {"name": "b39-stats-update-helpers",
     "edits": [("src/index/state.rs",
                """    pub(crate) fn increment_ref(&mut self, hash: &BlobHash) -> bool {""",
                """    fn blob_added(&mut self, size: u64) {
        self.stats.cas.unique_blobs += 1;
        self.stats.cas.total_bytes += size;
    }

    fn blob_dropped(&mut self, size: u64) {
        self.stats.cas.unique_blobs -= 1;
        self.stats.cas.total_bytes -= size;
    }

    pub(crate) fn increment_ref(&mut self, hash: &BlobHash) -> bool {""")],
     "sed": [("src/index/state.rs",
              """                            self.stats.cas.unique_blobs += 1;
                            self.stats.cas.total_bytes += *size;""",
              """                            self.blob_added(*size);"""),
             ("src/index/state.rs",
              """                            self.stats.cas.unique_blobs -= 1;
                            self.stats.cas.total_bytes -= prev.blob_size;""",
              """                            self.blob_dropped(prev.blob_size);"""),
             ("src/index/state.rs",
              """                        self.stats.cas.unique_blobs -= 1;
                        self.stats.cas.total_bytes -= item.blob_size;""",
              """                        self.blob_dropped(item.blob_size);""")]},
]


BENIGN += [
    # the exact-count refactor of seeded/C01b done right: the counter advances once per mapping removed
    {"name": "b40-exact-remove-count", "patch": "benign/b40-exact-remove-count.diff"},
]


BENIGN += [
    {"name": "b41-dir-lock-helper-taking-a-path",
     "edits": [("src/cas.rs",
                """        let lockfile = std::fs::OpenOptions::new()
            .create(true)
            .truncate(true)
            .write(true)
            .open(paths.lockfile_path())
            .map_err(|e| LibError::Io {
                operation: LibIoOperation::CreateLockFile,
                path: Some(paths.lockfile_path().to_path_buf()),
                source: e,
            })?;

        lockfile.try_lock().map_err(|_e| LibError::AlreadyOpened)?;
""",
                """        let lockfile = lock_exclusively(paths.lockfile_path())?;
"""),
               ("src/cas.rs",
                """pub fn calculate_blob_hash(blob_data: &[u8]) -> BlobHash {""",
                """fn lock_exclusively(lock_path: &Path) -> Result<File, LibError> {
    let lockfile = std::fs::OpenOptions::new()
        .create(true)
        .truncate(true)
        .write(true)
        .open(lock_path)
        .map_err(|e| LibError::Io {
            operation: LibIoOperation::CreateLockFile,
            path: Some(lock_path.to_path_buf()),
            source: e,
        })?;
    lockfile.try_lock().map_err(|_e| LibError::AlreadyOpened)?;
    Ok(lockfile)
}

pub fn calculate_blob_hash(blob_data: &[u8]) -> BlobHash {""")]},
]


BENIGN += [
    {"name": "b42-atomic-write-file-create-sync-all",
     "edits": [("src/io.rs",
                """    let mut temp_file =
        OpenOptions::new().write(true).create(true).truncate(true).open(temp_path).map_err(
            |e| IoError::AtomicWrite {
                step: AtomicWriteStep::CreateTemp,
                target_path: target_path.to_path_buf(),
                temp_path: temp_path.to_path_buf(),
                source: e,
            },
        )?;
""",
                """    let mut temp_file = std::fs::File::create(temp_path).map_err(|e| IoError::AtomicWrite {
        step: AtomicWriteStep::CreateTemp,
        target_path: target_path.to_path_buf(),
        temp_path: temp_path.to_path_buf(),
        source: e,
    })?;
"""),
               ("src/io.rs",
                """    temp_file.sync_data().map_err(|e| IoError::AtomicWrite {
        step: AtomicWriteStep::SyncTemp,""",
                """    temp_file.sync_all().map_err(|e| IoError::AtomicWrite {
        step: AtomicWriteStep::SyncTemp,""")]},
    {"name": "b43-extract-persist-and-prune",
     "edits": [("src/index/manager.rs",
                """        // 2. Set the version we're about to persist
        snapshot.last_persisted_version = Some(target_version);

        let serialized_len = IndexStatePersister::new(&self.paths).save(snapshot)?;
        snapshot.stats.index.serialized_size_bytes = serialized_len;
        // 3. Prune segments up to the target
        wal_guard
            .commit_checkpoint(target_version, current_checkpoint)
            .map_err(IndexError::ApplyWalOpWriteEntry)?;
        tracing::info!(checkpoint_version = target_version, "Checkpoint completed successfully.");

        Ok(())
    }
""",
                """        self.persist_and_prune(wal_guard, snapshot, target_version, current_checkpoint)?;
        tracing::info!(checkpoint_version = target_version, "Checkpoint completed successfully.");

        Ok(())
    }

    fn persist_and_prune(
        &self,
        wal_guard: &mut WalManager,
        snapshot: &mut IndexState<K>,
        target_version: std::num::NonZeroU64,
        previous: crate::types::CheckpointState,
    ) -> Result<(), IndexError> {
        // 2. Set the version we're about to persist
        snapshot.last_persisted_version = Some(target_version);

        let serialized_len = IndexStatePersister::new(&self.paths).save(snapshot)?;
        snapshot.stats.index.serialized_size_bytes = serialized_len;
        // 3. Prune segments up to the target
        wal_guard.commit_checkpoint(target_version, previous).map_err(IndexError::ApplyWalOpWriteEntry)
    }
""")]},
    {"name": "b44-lock-both-helper",
     "edits": [("src/index/manager.rs",
                """    pub fn checkpoint(&self, reason: CheckpointReason) -> Result<(), IndexError> {
        tracing::info!(?reason, "Starting checkpoint operation.");

        let mut snapshot = self.state.write();
        let mut wal_guard = self.wal.lock();
""",
                """    fn lock_state_and_wal(
        &self,
    ) -> (parking_lot::RwLockWriteGuard<'_, IndexState<K>>, parking_lot::MutexGuard<'_, WalManager>) {
        let state = self.state.write();
        let wal = self.wal.lock();
        (state, wal)
    }

    pub fn checkpoint(&self, reason: CheckpointReason) -> Result<(), IndexError> {
        tracing::info!(?reason, "Starting checkpoint operation.");

        let (mut snapshot, mut wal_guard) = self.lock_state_and_wal();
""")],
     "sed": [("src/index/manager.rs",
              """            let mut state = self.state.write();
            let mut wal = self.wal.lock();
            let (hashes, _append_info, rolled) =""",
              """            let (mut state, mut wal) = self.lock_state_and_wal();
            let (hashes, _append_info, rolled) =""")]},
]


BENIGN += [
    # seeded/C12b done right: sorted and de-duplicated on the same key (the hash)
    {"name": "b45-recompute-stats-sorted-vec",
     "edits": [("src/index/state.rs",
                """        let mut unique =
            HashMap::with_capacity_and_hasher(self.hash_to_ref_count.len(), Default::default());

        for item in self.key_to_hash.values() {
            unique.entry(item.blob_hash).or_insert(item.blob_size);
        }

        let unique_blobs = unique.len() as u64;
        let total_bytes = unique.values().copied().sum::<u64>();
""",
                """        let mut blobs: Vec<(BlobHash, u64)> =
            self.key_to_hash.values().map(|item| (item.blob_hash, item.blob_size)).collect();
        blobs.sort_unstable_by_key(|&(hash, _)| hash);
        blobs.dedup_by_key(|&mut (hash, _)| hash);

        let unique_blobs = blobs.len() as u64;
        let total_bytes = blobs.iter().map(|&(_, size)| size).sum::<u64>();
""")]},
    {"name": "b46-settings-init-helper-after-lock",
     "edits": [("src/cas.rs",
                """        // Load or create settings
        let settings_persister = SettingsPersister::new(paths.settings_path().to_path_buf());
        let dir_tree_is_pre_created = match settings_persister.load().map_err(LibError::Settings)? {""",
                """        let dir_tree_is_pre_created = Self::load_or_init_settings(&paths, &config)?;

        let cas_manager = Arc::new(CasManager::new(paths.clone(), dir_tree_is_pre_created));
        let index = Index::load(db_root, config.clone()).map_err(LibError::Index)?;
        Self::finish_new(paths, index, cas_manager, lockfile, config)
    }

    fn load_or_init_settings(paths: &paths::DbPaths, config: &Config) -> Result<bool, LibError> {
        // Load or create settings
        let settings_persister = SettingsPersister::new(paths.settings_path().to_path_buf());
        let dir_tree_is_pre_created = match settings_persister.load().map_err(LibError::Settings)? {"""),
               ("src/cas.rs",
                """        let cas_manager = Arc::new(CasManager::new(paths.clone(), dir_tree_is_pre_created));
        let index = Index::load(db_root, config.clone()).map_err(LibError::Index)?;

        let datasync_channel""",
                """        Ok(dir_tree_is_pre_created)
    }

    fn finish_new(
        paths: paths::DbPaths,
        index: Index<K>,
        cas_manager: Arc<CasManager>,
        lockfile: File,
        config: Config,
    ) -> Result<Self, LibError> {
        let datasync_channel""")],
     "sed": [("src/cas.rs", "                    pre_create_all_cas_directories(&paths)?;", "                    pre_create_all_cas_directories(paths)?;")]},
]


BENIGN += [
    {"name": "b47-orphan-cleanup-iterator-adaptors",
     "edits": [("src/orphan.rs",
                """        for path in &self.invalid_files {
            if path.exists() {
                match std::fs::remove_file(path) {
                    Ok(_) => result.invalid_files_removed += 1,
                    Err(e) => result.errors.push(format!("Failed to remove {path:?}: {e}")),
                }
            }
        }
""",
                """        for path in self.invalid_files.iter().filter(|p| p.exists()) {
            match std::fs::remove_file(path) {
                Ok(_) => result.invalid_files_removed += 1,
                Err(e) => result.errors.push(format!("Failed to remove {path:?}: {e}")),
            }
        }
""")]},
    {"name": "b48-commit-blob-remove-dead-arm-and-early-mkdir",
     "edits": [("src/cas_manager.rs",
                """        if !self.dir_tree_is_pre_created
            && let Some(parent) = final_cas_path.parent()
        {
            std::fs::create_dir_all(parent).map_err(|e| CasManagerError::FileOperation {
                operation: CasIoOperation::CreateSubdir,
                path: final_cas_path.clone(),
                source: e,
            })?;
        }
""",
                """        if !self.dir_tree_is_pre_created {
            self.ensure_shard_dir(&final_cas_path)?;
        }
"""),
               ("src/cas_manager.rs",
                """    /// Delete blobs from CAS that are unreferenced""",
                """    fn ensure_shard_dir(&self, final_cas_path: &Path) -> Result<(), CasManagerError> {
        let Some(parent) = final_cas_path.parent() else {
            return Ok(());
        };
        std::fs::create_dir_all(parent).map_err(|e| CasManagerError::FileOperation {
            operation: CasIoOperation::CreateSubdir,
            path: final_cas_path.to_path_buf(),
            source: e,
        })
    }

    /// Delete blobs from CAS that are unreferenced""")]},
    {"name": "b49-delete-blobs-if-let-err",
     "edits": [("src/cas_manager.rs",
                """            match std::fs::remove_file(&file_path) {
                Ok(_) => {
                    tracing::debug!(
                        "Successfully deleted unreferenced CAS file: {}",
                        file_path.display()
                    );
                }
                Err(e) if e.kind() == std::io::ErrorKind::NotFound => {
                    tracing::warn!(
                        "CAS file '{}' for unreferenced hash {} not found during deletion, skipping.",
                        file_path.display(),
                        hash
                    );
                }
                Err(e) => {
                    return Err(CasManagerError::FileOperation {
                        operation: CasIoOperation::RemoveFile,
                        path: file_path,
                        source: e,
                    });
                }
            }
""",
                """            if let Err(e) = std::fs::remove_file(&file_path) {
                if e.kind() != std::io::ErrorKind::NotFound {
                    return Err(CasManagerError::FileOperation {
                        operation: CasIoOperation::RemoveFile,
                        path: file_path,
                        source: e,
                    });
                }
                tracing::warn!(
                    "CAS file '{}' for unreferenced hash {} not found during deletion, skipping.",
                    file_path.display(),
                    hash
                );
            }
""")]},
]


BENIGN += [
    {"name": "b50-decrement-ref-let-else-and-gt",
     "edits": [("src/index/state.rs",
                """        match self.hash_to_ref_count.get_mut(hash_to_decrement) {
            Some(count) => {
                if *count == 0 {
                    return Err(IndexStateError::DecrementZeroRefCount {
                        hash: *hash_to_decrement,
                    });
                }
                *count -= 1;
                if *count == 0 {
                    self.hash_to_ref_count.remove(hash_to_decrement);
                    Ok(Some(*hash_to_decrement))
                } else {
                    Ok(None)
                }
            }
            None => Err(IndexStateError::HashNotFoundForDecrement { hash: *hash_to_decrement }),
        }""",
                """        let Some(count) = self.hash_to_ref_count.get_mut(hash_to_decrement) else {
            return Err(IndexStateError::HashNotFoundForDecrement { hash: *hash_to_decrement });
        };
        if *count == 0 {
            return Err(IndexStateError::DecrementZeroRefCount { hash: *hash_to_decrement });
        }
        *count -= 1;
        if *count != 0 {
            return Ok(None);
        }
        self.hash_to_ref_count.remove(hash_to_decrement);
        Ok(Some(*hash_to_decrement))""")]},
    {"name": "b51-increment-ref-reports-now-one",
     "edits": [("src/index/state.rs",
                """        let entry = self.hash_to_ref_count.entry(*hash).or_default();
        let was_zero = *entry == 0;
        *entry += 1;
        was_zero""",
                """        let entry = self.hash_to_ref_count.entry(*hash).or_default();
        *entry += 1;
        *entry == 1""")]},
]


MUTANTS += [
    {"name": "c07-inc-reports-is-one-before-add",
     "edits": [("src/index/state.rs",
                """        let was_zero = *entry == 0;
        *entry += 1;
        was_zero""",
                """        let was_zero = *entry == 1;
        *entry += 1;
        was_zero""")],
     "expect": [("C07", "inc-primitive")]},
    {"name": "c07-inc-reports-is-zero-after-add",
     "edits": [("src/index/state.rs",
                """        let was_zero = *entry == 0;
        *entry += 1;
        was_zero""",
                """        *entry += 1;
        *entry == 0""")],
     "expect": [("C07", "inc-primitive")]},
]


MUTANTS += [
    {"name": "c02-highest-keeps-smaller-version",
     "edits": [("src/wal/replay.rs",
                """                highest = match highest {
                    Some(prev) => Some(prev.max(entry.version)),
                    None => Some(entry.version),
                };
""",
                """                if highest.is_none_or(|prev| entry.version < prev) {
                    highest = Some(entry.version);
                }
""")],
     "expect": [("C02", "C02|R7")]},
]
