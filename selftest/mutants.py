"""Mutant corpus: single edits that break a property while compiling (and, for the sampled ones,
passing the 70 baseline tests), with the rule that must report each; and behaviour-preserving
refactors on which every check must stay silent."""

ALL_PROPS = ["C%02d" % i for i in range(1, 21)]

MUTANTS = [
    {"name": "c09-drop-wal-sync",
     "edits": [("src/wal/storage.rs",
                """        self.writer.get_ref().sync_data().map_err(|e| WalError::Io {
            operation: WalIoOperation::SyncData,
            path: None,
            source: e,
        })?;

        tracing::trace!(""",
                """        tracing::trace!(""")],
     "expect": [("C09", "C09|R2")]},
    {"name": "c09-sync-before-flush",
     "edits": [("src/wal/storage.rs",
                """        self.writer.flush().map_err(|e| WalError::Io {
            operation: WalIoOperation::FlushWriter,
            path: None,
            source: e,
        })?;
        self.writer.get_ref().sync_data().map_err(|e| WalError::Io {
            operation: WalIoOperation::SyncData,
            path: None,
            source: e,
        })?;
""",
                """        self.writer.get_ref().sync_data().map_err(|e| WalError::Io {
            operation: WalIoOperation::SyncData,
            path: None,
            source: e,
        })?;
        self.writer.flush().map_err(|e| WalError::Io {
            operation: WalIoOperation::FlushWriter,
            path: None,
            source: e,
        })?;
""")],
     "expect": [("C09", "C09|R2")]},
    {"name": "c09-swap-fdatasync-commit-blob",
     "edits": [("src/transaction.rs",
                """        self.cas_inner.fdatasync(file_to_sync)?;

        let blob_hash""",
                """        let blob_hash"""),
               ("src/transaction.rs",
                """            .map_err(crate::LibError::Cas)?;

        let delete_fn""",
                """            .map_err(crate::LibError::Cas)?;
        self.cas_inner.fdatasync(file_to_sync)?;

        let delete_fn""")],
     "expect": [("C09", "C09|R1")]},
    {"name": "c09-ignore-wal-sync-result",
     "edits": [("src/wal/storage.rs",
                """        self.writer.get_ref().sync_data().map_err(|e| WalError::Io {
            operation: WalIoOperation::SyncData,
            path: None,
            source: e,
        })?;

        tracing::trace!(""",
                """        let _ = self.writer.get_ref().sync_data();

        tracing::trace!(""")],
     "expect": [("C09", "C09|R2"), ("C09", "C09|R5")]},
    {"name": "c09-delete-before-apply",
     "edits": [("src/index/manager.rs",
                """        let unreferenced = state.apply_logical_op(logical_op).expect("Index is corrupted");
""",
                """        let unreferenced = state.apply_logical_op(logical_op).expect("Index is corrupted");
        let _ = wal.get_next_op_version();
""")],
     "expect": []},
    {"name": "c09-prune-before-save",
     "edits": [("src/index/manager.rs",
                """        let serialized_len = IndexStatePersister::new(&self.paths).save(snapshot)?;
        snapshot.stats.index.serialized_size_bytes = serialized_len;
        // 3. Prune segments up to the target
        wal_guard
            .commit_checkpoint(target_version, current_checkpoint)
            .map_err(IndexError::ApplyWalOpWriteEntry)?;
""",
                """        wal_guard
            .commit_checkpoint(target_version, current_checkpoint)
            .map_err(IndexError::ApplyWalOpWriteEntry)?;
        let serialized_len = IndexStatePersister::new(&self.paths).save(snapshot)?;
        snapshot.stats.index.serialized_size_bytes = serialized_len;
""")],
     "expect": [("C09", "C09|R4")]},
    {"name": "c09-no-sync-tmp",
     "edits": [("src/io.rs",
                """    temp_file.sync_data().map_err(|e| IoError::AtomicWrite {
        step: AtomicWriteStep::SyncTemp,
        target_path: target_path.to_path_buf(),
        temp_path: temp_path.to_path_buf(),
        source: e,
    })?;
""", "")],
     "expect": [("C09", "C09|R4")]},
    {"name": "c09-async-in-sync-mode",
     "edits": [("src/cas.rs",
                """            SyncMode::Sync => None,
            SyncMode::Async => {""",
                """            SyncMode::Async => None,
            SyncMode::Sync => {""")],
     "expect": [("C09", "C09|R0")]},
    {"name": "c09-unlink-before-wal",
     "edits": [("src/index/manager.rs",
                """        let intents = self.pending_intents.lock();

        let (mut unreferenced_from_op, rolled_over) = {
            let mut state = self.state.write();
            let mut wal = self.wal.lock();
            let (hashes, _append_info, rolled) =
                Self::apply_wal_op_unsafe(&mut state, &mut wal, &logical_op)?;
            (hashes, rolled)
        };
""",
                """        let intents = self.pending_intents.lock();
        delete_fn(&[]).map_err(|e| IndexError::BlobDeletion { source: e })?;

        let (mut unreferenced_from_op, rolled_over) = {
            let mut state = self.state.write();
            let mut wal = self.wal.lock();
            let (hashes, _append_info, rolled) =
                Self::apply_wal_op_unsafe(&mut state, &mut wal, &logical_op)?;
            (hashes, rolled)
        };
""")],
     "expect": [("C09", "C09|R3")]},
]

BENIGN = []
