"""Mutant corpus: single edits that break a property while compiling (and, for the sampled ones,
passing the 70 baseline tests), with the rule that must report each; and behaviour-preserving
refactors on which every check must stay silent."""

ALL_PROPS = ["C%02d" % i for i in range(1, 21)]

MUTANTS = [
    {"name": "c09-drop-wal-sync",
     "edits": [("src/wal/storage.rs",
                """        self.writer.get_ref().sync_data().map_err(|e| WalError::Io {
            operation: WalIoOperation::SyncData,
            path: None,
            source: e,
        })?;

        tracing::trace!(""",
                """        tracing::trace!(""")],
     "expect": [("C09", "C09|R2")]},
    {"name": "c09-sync-before-flush",
     "edits": [("src/wal/storage.rs",
                """        self.writer.flush().map_err(|e| WalError::Io {
            operation: WalIoOperation::FlushWriter,
            path: None,
            source: e,
        })?;
        self.writer.get_ref().sync_data().map_err(|e| WalError::Io {
            operation: WalIoOperation::SyncData,
            path: None,
            source: e,
        })?;
""",
                """        self.writer.get_ref().sync_data().map_err(|e| WalError::Io {
            operation: WalIoOperation::SyncData,
            path: None,
            source: e,
        })?;
        self.writer.flush().map_err(|e| WalError::Io {
            operation: WalIoOperation::FlushWriter,
            path: None,
            source: e,
        })?;
""")],
     "expect": [("C09", "C09|R2")]},
    {"name": "c09-swap-fdatasync-commit-blob",
     "edits": [("src/transaction.rs",
                """        self.cas_inner.fdatasync(file_to_sync)?;

        let blob_hash""",
                """        let blob_hash"""),
               ("src/transaction.rs",
                """            .map_err(crate::LibError::Cas)?;

        let delete_fn""",
                """            .map_err(crate::LibError::Cas)?;
        self.cas_inner.fdatasync(file_to_sync)?;

        let delete_fn""")],
     "expect": [("C09", "C09|R1")]},
    {"name": "c09-ignore-wal-sync-result",
     "edits": [("src/wal/storage.rs",
                """        self.writer.get_ref().sync_data().map_err(|e| WalError::Io {
            operation: WalIoOperation::SyncData,
            path: None,
            source: e,
        })?;

        tracing::trace!(""",
                """        let _ = self.writer.get_ref().sync_data();

        tracing::trace!(""")],
     "expect": [("C09", "C09|R2"), ("C09", "C09|R5")]},
    {"name": "c09-delete-before-apply",
     "edits": [("src/index/manager.rs",
                """        let unreferenced = state.apply_logical_op(logical_op).expect("Index is corrupted");
""",
                """        let unreferenced = state.apply_logical_op(logical_op).expect("Index is corrupted");
        let _ = wal.get_next_op_version();
""")],
     "expect": []},
    {"name": "c09-prune-before-save",
     "edits": [("src/index/manager.rs",
                """        let serialized_len = IndexStatePersister::new(&self.paths).save(snapshot)?;
        snapshot.stats.index.serialized_size_bytes = serialized_len;
        // 3. Prune segments up to the target
        wal_guard
            .commit_checkpoint(target_version, current_checkpoint)
            .map_err(IndexError::ApplyWalOpWriteEntry)?;
""",
                """        wal_guard
            .commit_checkpoint(target_version, current_checkpoint)
            .map_err(IndexError::ApplyWalOpWriteEntry)?;
        let serialized_len = IndexStatePersister::new(&self.paths).save(snapshot)?;
        snapshot.stats.index.serialized_size_bytes = serialized_len;
""")],
     "expect": [("C09", "C09|R4")]},
    {"name": "c09-no-sync-tmp",
     "edits": [("src/io.rs",
                """    temp_file.sync_data().map_err(|e| IoError::AtomicWrite {
        step: AtomicWriteStep::SyncTemp,
        target_path: target_path.to_path_buf(),
        temp_path: temp_path.to_path_buf(),
        source: e,
    })?;
""", "")],
     "expect": [("C09", "C09|R4")]},
    {"name": "c09-async-in-sync-mode",
     "edits": [("src/cas.rs",
                """            SyncMode::Sync => None,
            SyncMode::Async => {""",
                """            SyncMode::Async => None,
            SyncMode::Sync => {""")],
     "expect": [("C09", "C09|R0")]},
    {"name": "c09-unlink-before-wal",
     "edits": [("src/index/manager.rs",
                """        let intents = self.pending_intents.lock();

        let (mut unreferenced_from_op, rolled_over) = {
            let mut state = self.state.write();
            let mut wal = self.wal.lock();
            let (hashes, _append_info, rolled) =
                Self::apply_wal_op_unsafe(&mut state, &mut wal, &logical_op)?;
            (hashes, rolled)
        };
""",
                """        let intents = self.pending_intents.lock();
        delete_fn(&[]).map_err(|e| IndexError::BlobDeletion { source: e })?;

        let (mut unreferenced_from_op, rolled_over) = {
            let mut state = self.state.write();
            let mut wal = self.wal.lock();
            let (hashes, _append_info, rolled) =
                Self::apply_wal_op_unsafe(&mut state, &mut wal, &logical_op)?;
            (hashes, rolled)
        };
""")],
     "expect": [("C09", "C09|R3")]},
]

MUTANTS += [
    {"name": "c06-open-blob-for-write",
     "edits": [("src/cas_manager.rs",
                """        let file = File::open(&cas_path).map_err(|e| CasManagerError::FileOperation {
            operation: CasIoOperation::OpenBuffered,""",
                """        let file = std::fs::OpenOptions::new().read(true).write(true).open(&cas_path).map_err(|e| CasManagerError::FileOperation {
            operation: CasIoOperation::OpenBuffered,""")],
     "expect": [("C06", "C06|R1")]},
    {"name": "c06-skip-flush-into-parts",
     "edits": [("src/transaction.rs",
                """        let file_to_sync = self.writer.into_inner().map_err(|e| crate::LibError::Io {
            operation: LibIoOperation::CommitFlushWriter,
            path: None,
            source: e.into_error(),
        })?;""",
                """        let (file_to_sync, _unflushed) = self.writer.into_parts();
        let _ = LibIoOperation::CommitFlushWriter;""")],
     "expect": [("C06", "C06|R3"), ("C09", "C09|R1")]},
    {"name": "c06-reserve-final-path",
     "edits": [("src/cas_manager.rs",
                """        match std::fs::rename(staging_path, &final_cas_path) {""",
                """        let _reserve = File::create(&final_cas_path);
        match std::fs::rename(staging_path, &final_cas_path) {""")],
     "expect": [("C06", "C06|R1")]},
    {"name": "c06-hash-of-key",
     "edits": [("src/transaction.rs",
                """        let blob_hash = BlobHash::from_bytes(*self.hasher.finalize().as_bytes());""",
                """        let blob_hash = BlobHash::from_bytes(*blake3::hash(&self.key.to_key_bytes_owned()).as_bytes());""")],
     "expect": [("C06", "C06|R4")]},
    {"name": "c11-lock-after-index-load",
     "edits": [("src/cas.rs",
                """        lockfile.try_lock().map_err(|_e| LibError::AlreadyOpened)?;

""", ""),
               ("src/cas.rs",
                """        let index = Index::load(db_root, config.clone()).map_err(LibError::Index)?;
""",
                """        let index = Index::load(db_root, config.clone()).map_err(LibError::Index)?;
        lockfile.try_lock().map_err(|_e| LibError::AlreadyOpened)?;
""")],
     "expect": [("C11", "C11|R1")]},
    {"name": "c11-blocking-lock",
     "edits": [("src/cas.rs",
                """        lockfile.try_lock().map_err(|_e| LibError::AlreadyOpened)?;""",
                """        lockfile.lock().map_err(|_e| LibError::AlreadyOpened)?;""")],
     "expect": [("C11", "C11|R3")]},
    {"name": "c11-ignore-lock-failure",
     "edits": [("src/cas.rs",
                """        lockfile.try_lock().map_err(|_e| LibError::AlreadyOpened)?;""",
                """        if lockfile.try_lock().is_err() {
            tracing::warn!("database directory is in use");
        }""")],
     "expect": [("C11", "C11|R1")]},
    {"name": "c11-store-unlocked-handle",
     "edits": [("src/cas.rs",
                """        Ok(Self { paths, index, cas_manager, _lockfile: lockfile, datasync_channel })""",
                """        let keep = std::fs::File::open(paths.lockfile_path()).map_err(|e| LibError::Io {
            operation: LibIoOperation::CreateLockFile,
            path: None,
            source: e,
        })?;
        Ok(Self { paths, index, cas_manager, _lockfile: keep, datasync_channel })""")],
     "expect": [("C11", "C11|R4")]},
    {"name": "c13-write-takes-intents-lock",
     "edits": [("src/transaction.rs",
                """        self.size += data.len() as u64;""",
                """        let _g = self.cas_inner.index.pending_intents.lock();
        self.size += data.len() as u64;""")],
     "expect": [("C13", "C13|R1")]},
    {"name": "c13-new-touches-cas",
     "edits": [("src/transaction.rs",
                """        let staging_dir = cas_inner.paths.staging_root_path();
""",
                """        let staging_dir = cas_inner.paths.cas_root_path();
""")],
     "expect": [("C13", "C13|R1"), ("C06", "C06|")]},
    {"name": "c19-index-load-before-validation",
     "edits": [("src/cas.rs",
                """        let index = Index::load(db_root, config.clone()).map_err(LibError::Index)?;
""", ""),
               ("src/cas.rs",
                """        // Load or create settings
""",
                """        let index = Index::load(db_root, config.clone()).map_err(LibError::Index)?;
        // Load or create settings
""")],
     "expect": [("C19", "C19|R1")]},
    {"name": "c19-future-versions-only",
     "edits": [("src/settings.rs",
                """                if settings.version != CURRENT_DB_VERSION {""",
                """                if settings.version > CURRENT_DB_VERSION {""")],
     "expect": [("C19", "C19|R3")]},
    {"name": "c19-config-flag-wins",
     "edits": [("src/cas.rs",
                """        let cas_manager = Arc::new(CasManager::new(paths.clone(), dir_tree_is_pre_created));""",
                """        let _ = dir_tree_is_pre_created;
        let cas_manager = Arc::new(CasManager::new(paths.clone(), config.pre_create_cas_dirs));""")],
     "expect": [("C19", "C19|R4")]},
    {"name": "c19-always-save-settings",
     "edits": [("src/cas.rs",
                """        let cas_manager = Arc::new(CasManager::new(paths.clone(), dir_tree_is_pre_created));""",
                """        settings_persister
            .save(&DbSettings {
                version: settings::CURRENT_DB_VERSION,
                dir_tree_is_pre_created,
                num_ops_per_wal: config.num_ops_per_wal,
            })
            .map_err(LibError::Settings)?;
        let cas_manager = Arc::new(CasManager::new(paths.clone(), dir_tree_is_pre_created));""")],
     "expect": [("C19", "C19|R5")]},
    {"name": "c19-no-compare",
     "edits": [("src/cas.rs",
                """                if existing_settings.num_ops_per_wal != config.num_ops_per_wal {""",
                """                if existing_settings.num_ops_per_wal > config.num_ops_per_wal {""")],
     "expect": [("C19", "C19|R1")]},
]

BENIGN = []
