"""Shared by the self-test runners: scratch copies of /repo (outside /repo and /verif) and one analysis process per
scratch copy that runs several properties (casslint.multi)."""
import os
import shutil
import subprocess
import tempfile

HERE = os.path.dirname(os.path.abspath(__file__))
VERIF = os.path.dirname(HERE)
REPO = "/repo"
ALL = ["C%02d" % i for i in range(1, 21)]
JOBS = int(os.environ.get("SELFTEST_JOBS", "8"))


def make_copy(prefix="casslint-mut-"):
    base = tempfile.mkdtemp(prefix=prefix)
    dst = os.path.join(base, "repo")
    os.makedirs(dst)
    shutil.copytree(os.path.join(REPO, "src"), os.path.join(dst, "src"))
    for f in ("Cargo.toml", "Cargo.lock"):
        shutil.copy(os.path.join(REPO, f), os.path.join(dst, f))
    return base, dst


def run_props(dst, props):
    """{prop: (rc, output)} - the same rule code as ./check, one process for all the properties asked for."""
    env = dict(os.environ, CARGO_NET_OFFLINE="true")
    p = subprocess.run(["python3", "-m", "casslint.multi", "--root", dst] + list(props), cwd=VERIF, env=env,
                       capture_output=True, text=True)
    res = {}
    cur = None
    for line in p.stdout.splitlines():
        if line.startswith("=====PROP "):
            _, prop, rc = line.split()
            cur = prop
            res[cur] = [int(rc.split("=")[1]), []]
        elif cur is not None:
            res[cur][1].append(line)
    out = {}
    for prop in props:
        if prop in res:
            out[prop] = (res[prop][0], "\n".join(res[prop][1]))
        else:
            out[prop] = (2, "no output for %s\n%s" % (prop, p.stderr[-1500:]))
    return out
