#!/usr/bin/env python3
"""Runs the registered checks against seeded changes (patch.diff files): selftest/seeded.py DIR [--props C01,C02 | --all]
DIR holds <id>/patch.diff (e.g. /verif/seeded or /tmp/seed-out)."""
import os
import shutil
import subprocess
import sys
import tempfile

HERE = os.path.dirname(os.path.abspath(__file__))
sys.path.insert(0, HERE)
import common
VERIF = os.path.dirname(HERE)
REPO = "/repo"
ALL = ["C%02d" % i for i in range(1, 21)]


def one(args):
    d, name, allp = args
    pd = os.path.join(d, name, "patch.diff")
    lines = []
    base, dst = common.make_copy("casslint-seed-")
    p = subprocess.run(["patch", "-p1", "-s", "-i", pd], cwd=dst, capture_output=True, text=True)
    if p.returncode != 0:
        shutil.rmtree(base, ignore_errors=True)
        return name, None, ["%-10s PATCH DOES NOT APPLY: %s" % (name, (p.stdout + p.stderr)[:200])]
    target = name[:3]
    props = ALL if allp else [target]
    res = common.run_props(dst, props)
    fired = []
    result = {}
    for prop in props:
        rc, text = res[prop]
        fails = [l.strip() for l in text.splitlines() if l.strip().startswith("FAIL")]
        if rc != 0:
            fired.append((prop, fails))
            keys = []
            for f in fails:
                if "[" in f and f.endswith("]"):
                    k = f[f.rindex("[") + 1:-1]
                    if not k.endswith("|floor"):
                        keys.append(k)
            result[prop] = keys[:8] or ["(fail-closed: see the check output)"]
    if fired:
        lines.append("%-10s CAUGHT by %s" % (name, ", ".join(p for p, _ in fired)))
        for p, fails in fired:
            for f in fails[:3]:
                lines.append("             %s: %s" % (p, f[:230]))
    else:
        lines.append("%-10s MISSED (checked %s)" % (name, ",".join(props)))
    shutil.rmtree(base, ignore_errors=True)
    return name, result, lines


def main():
    import json
    from concurrent.futures import ThreadPoolExecutor
    d = os.path.abspath(sys.argv[1])
    results = {}
    only = None
    allp = "--all" in sys.argv
    for a in sys.argv[2:]:
        if a.startswith("--only="):
            only = a.split("=")[1].split(",")
    names = [n for n in sorted(os.listdir(d)) if os.path.isfile(os.path.join(d, n, "patch.diff")) and (not only or n in only)]
    with ThreadPoolExecutor(max_workers=common.JOBS) as ex:
        for name, result, lines in ex.map(one, [(d, n, allp) for n in names]):
            for l in lines:
                print(l)
            sys.stdout.flush()
            if result is not None:
                results[name] = result
    if "--write" in sys.argv:
        out = os.path.join(d, "RESULTS.json")
        old = {}
        if os.path.exists(out):
            old = json.load(open(out))
        old.update(results)
        json.dump(old, open(out, "w"), indent=1, sort_keys=True)


if __name__ == "__main__":
    main()
