#!/usr/bin/env python3
"""Runs the registered checks against seeded changes (patch.diff files): selftest/seeded.py DIR [--props C01,C02 | --all]
DIR holds <id>/patch.diff (e.g. /verif/seeded or /tmp/seed-out)."""
import os
import shutil
import subprocess
import sys
import tempfile

HERE = os.path.dirname(os.path.abspath(__file__))
VERIF = os.path.dirname(HERE)
REPO = "/repo"
ALL = ["C%02d" % i for i in range(1, 21)]


def main():
    import json
    d = sys.argv[1]
    results = {}
    only = None
    allp = "--all" in sys.argv
    for a in sys.argv[2:]:
        if a.startswith("--only="):
            only = a.split("=")[1].split(",")
    for name in sorted(os.listdir(d)):
        pd = os.path.join(d, name, "patch.diff")
        if not os.path.isfile(pd) or (only and name not in only):
            continue
        base = tempfile.mkdtemp(prefix="casslint-seed-")
        dst = os.path.join(base, "repo")
        os.makedirs(dst)
        shutil.copytree(os.path.join(REPO, "src"), os.path.join(dst, "src"))
        for f in ("Cargo.toml", "Cargo.lock"):
            shutil.copy(os.path.join(REPO, f), os.path.join(dst, f))
        p = subprocess.run(["patch", "-p1", "-s", "-i", pd], cwd=dst, capture_output=True, text=True)
        if p.returncode != 0:
            print("%-10s PATCH DOES NOT APPLY: %s" % (name, (p.stdout + p.stderr)[:200]))
            shutil.rmtree(base, ignore_errors=True)
            continue
        target = name[:3]
        props = ALL if allp else [target]
        fired = []
        for prop in props:
            q = subprocess.run([os.path.join(VERIF, "check"), prop, "--root", dst], capture_output=True, text=True)
            fails = [l.strip() for l in q.stdout.splitlines() if l.strip().startswith("FAIL")]
            if q.returncode != 0:
                fired.append((prop, fails))
                keys = []
                for f in fails:
                    if "[" in f and f.endswith("]"):
                        k = f[f.rindex("[") + 1:-1]
                        if not k.endswith("|floor"):
                            keys.append(k)
                results.setdefault(name, {})[prop] = keys[:8] or ["(fail-closed: see the check output)"]
        if fired:
            print("%-10s CAUGHT by %s" % (name, ", ".join(p for p, _ in fired)))
            for p, fails in fired:
                for f in fails[:3]:
                    print("             %s: %s" % (p, f[:230]))
        else:
            print("%-10s MISSED (checked %s)" % (name, ",".join(props)))
        results.setdefault(name, {})
        shutil.rmtree(base, ignore_errors=True)
    if "--write" in sys.argv:
        out = os.path.join(d, "RESULTS.json")
        old = {}
        if os.path.exists(out):
            old = json.load(open(out))
        old.update(results)
        json.dump(old, open(out, "w"), indent=1, sort_keys=True)


if __name__ == "__main__":
    main()
