//! Compile-fail witnesses for cassadilia (thorough tier of the static checks).
//!
//! Every witness is a `compile_fail,E0xxx` block naming the crate as an external user would, paired with a
//! compiling twin (`no_run`: compiled, never executed) that differs only in the offending line - a witness whose
//! path is merely wrong also "fails to compile", the twin shows the rest of the block is fine.
//! Run with `cargo +nightly test --doc --offline` (error codes are enforced on nightly only).

/// W1 (C06, C13): a transaction that has been finished cannot be written to - `finish` consumes it.
///
/// ```compile_fail,E0382
/// fn f(cas: &cassadilia::Cas<String>) {
///     let mut tx = cas.put("k".to_string()).unwrap();
///     tx.write(b"x").unwrap();
///     tx.finish().unwrap();
///     tx.write(b"late").unwrap();
/// }
/// ```
///
/// ```no_run
/// fn f(cas: &cassadilia::Cas<String>) {
///     let mut tx = cas.put("k".to_string()).unwrap();
///     tx.write(b"x").unwrap();
///     tx.finish().unwrap();
/// }
/// ```
pub struct W1FinishConsumes;

/// W2a (C01, C04, C11, C12): the index manager inside a handle is not reachable from outside the crate.
///
/// ```compile_fail,E0616
/// fn f(c: &cassadilia::CasInner<String>) {
///     let _ = &c.index;
/// }
/// ```
///
/// ```no_run
/// fn f(c: &cassadilia::CasInner<String>) {
///     let _ = c.root_path();
/// }
/// ```
pub struct W2aIndexFieldPrivate;

/// W2b (C06, C07): the CAS manager (the only code that renames into / unlinks from `cas/`) is not reachable.
///
/// ```compile_fail,E0616
/// fn f(c: &cassadilia::CasInner<String>) {
///     let _ = &c.cas_manager;
/// }
/// ```
///
/// ```no_run
/// fn f(c: &cassadilia::CasInner<String>) {
///     let _ = c.stats();
/// }
/// ```
pub struct W2bCasManagerFieldPrivate;

/// W2c (C11): the directory lock file handle cannot be taken out of a handle.
///
/// ```compile_fail,E0616
/// fn f(c: &cassadilia::CasInner<String>) {
///     let _ = &c._lockfile;
/// }
/// ```
///
/// ```no_run
/// fn f(c: &cassadilia::CasInner<String>) {
///     let _ = c.root_path();
/// }
/// ```
pub struct W2cLockFilePrivate;

/// W2d (C02, C03, C10, C20): the log and index modules are private - no outside code appends to the log or
/// applies an operation to the index.
///
/// ```compile_fail,E0603
/// use cassadilia::wal::WalManager;
/// fn f(_: &WalManager) {}
/// ```
///
/// ```compile_fail,E0603
/// use cassadilia::index::Index;
/// fn f(_: &Index<String>) {}
/// ```
///
/// ```compile_fail,E0603
/// use cassadilia::cas_manager::CasManager;
/// fn f(_: &CasManager) {}
/// ```
///
/// ```compile_fail,E0603
/// use cassadilia::serialization::deserialize_index_state;
/// ```
///
/// ```no_run
/// use cassadilia::IndexReadGuard;
/// fn f(_: &IndexReadGuard<'_, String>) {}
/// ```
pub struct W2dModulesPrivate;

/// W3 (C01, C05): the public read view offers no mutable access to the index.
///
/// ```compile_fail,E0599
/// fn f(g: &mut cassadilia::IndexReadGuard<'_, String>) {
///     let _ = g.get_mut(&"k".to_string());
/// }
/// ```
///
/// ```compile_fail,E0599
/// fn f(g: &mut cassadilia::IndexReadGuard<'_, String>) {
///     for _ in g.iter_mut() {}
/// }
/// ```
///
/// ```no_run
/// fn f(g: &mut cassadilia::IndexReadGuard<'_, String>) {
///     let _ = g.get_item(&"k".to_string());
///     for _ in g.iter() {}
/// }
/// ```
pub struct W3ReadViewImmutable;

/// W4 (C01): a store can only be opened for a key type with a total order and a byte codec.
///
/// ```compile_fail,E0599
/// #[derive(Clone, PartialEq, Eq, Hash, Debug)]
/// struct NoOrd(u8);
/// fn f() {
///     let _ = cassadilia::Cas::<NoOrd>::open("x", cassadilia::Config::default());
/// }
/// ```
///
/// ```no_run
/// fn f() {
///     let _ = cassadilia::Cas::<String>::open("x", cassadilia::Config::default());
/// }
/// ```
pub struct W4KeyBounds;
