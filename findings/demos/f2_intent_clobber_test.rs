//! F-2: the steps of three real API calls, interleaved exactly as three threads could
//! interleave them (each step below is one lock-delimited step of the real code).
use crate::index::IntentMeta;
use crate::types::BlobHash;
use crate::{Cas, Config, calculate_blob_hash};

fn stage(cas: &Cas<String>, data: &[u8]) -> tempfile::NamedTempFile {
    let mut f = tempfile::NamedTempFile::new_in(cas.paths.staging_root_path()).unwrap();
    std::io::Write::write_all(&mut f, data).unwrap();
    f
}

#[test]
fn f2_same_key_writers_plus_remove_leave_dangling_key() {
    let dir = tempfile::tempdir().unwrap();
    let cas: Cas<String> = Cas::open(dir.path(), Config::default()).unwrap();
    // pre-existing: z -> X
    let mut tx = cas.put("z".into()).unwrap(); tx.write(b"XXXX").unwrap(); tx.finish().unwrap();
    let hx = calculate_blob_hash(b"XXXX"); let hy = calculate_blob_hash(b"YYYY");
    let delete_fn = |h: &[BlobHash]| cas.cas_manager.delete_blobs(h).map(|_| ());

    // T1 = put("a", X): Transaction::commit up to and including commit_blob
    let s1 = stage(&cas, b"XXXX");
    let g1 = cas.index.register_intent("a".into(), IntentMeta { blob_hash: hx, blob_size: 4 }).unwrap();
    cas.cas_manager.commit_blob(s1.path(), &hx).unwrap();
    // T2 = put("a", Y): Transaction::commit up to register_intent
    let _s2 = stage(&cas, b"YYYY");
    let g2 = cas.index.register_intent("a".into(), IntentMeta { blob_hash: hy, blob_size: 4 }).unwrap();
    // T3 = remove("z"): whole call
    assert!(cas.remove(&"z".to_string()).unwrap());
    // T1 resumes: intent_guard.commit
    g1.commit(&delete_fn).unwrap();
    drop(g2);

    let item = cas.read_index_state().get_item(&"a".to_string()).unwrap();
    assert_eq!(item.blob_hash, hx);
    let blob = cas.paths.cas_file_path(&hx);
    println!("index: a -> {hx}; blob exists: {}; get(a) = {:?}", blob.exists(), cas.get(&"a".to_string()).map(|o| o.map(|b| b.len())));
    assert!(blob.exists(), "DANGLING: key a references a blob that was unlinked");
}
