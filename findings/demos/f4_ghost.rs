// F-4: a WAL append that fails once (EFBIG via RLIMIT_FSIZE) leaves its bytes in the BufWriter;
// the next successful append makes the *failed* operation durable.
use cassadilia::{Cas, Config};
fn put(cas: &Cas<String>, k: &str, v: &[u8]) -> Result<(), String> {
    let mut tx = cas.put(k.to_string()).map_err(|e| e.to_string())?;
    tx.write(v).map_err(|e| e.to_string())?;
    tx.finish().map_err(|e| format!("{e:?}"))
}
fn set_fsize(lim: u64) { unsafe {
    let mut r = libc::rlimit { rlim_cur: 0, rlim_max: 0 };
    libc::getrlimit(libc::RLIMIT_FSIZE, &mut r); r.rlim_cur = lim;
    assert_eq!(libc::setrlimit(libc::RLIMIT_FSIZE, &r), 0); } }
fn main() {
    unsafe { libc::signal(libc::SIGXFSZ, libc::SIG_IGN); }
    let d = tempfile::tempdir().unwrap();
    {
        let cas: Cas<String> = Cas::open(d.path(), Config::default()).unwrap();
        put(&cas, "k1", b"one").unwrap(); put(&cas, "k2", b"two").unwrap();
        let wal = d.path().join("0_index.wal"); let s = std::fs::metadata(&wal).unwrap().len();
        set_fsize(s + 10);
        let r = put(&cas, "a", b"GHOST-CONTENT");
        println!("put(a) under fsize limit -> {r:?}");
        set_fsize(libc::RLIM_INFINITY);
        println!("get(a) in this session -> {:?}", cas.get(&"a".to_string()).unwrap());
        put(&cas, "next", b"whatever").unwrap();
        put(&cas, "b", b"GHOST-CONTENT").unwrap();
        assert!(cas.remove(&"b".to_string()).unwrap());
        println!("session 1 done; keys = {:?}", cas.read_index_state().iter().map(|(k,_)| k.clone()).collect::<Vec<_>>());
    }
    match Cas::<String>::open(d.path(), Config::default()) {
        Ok(cas) => println!("reopen OK; keys = {:?}; get(a) = {:?}", cas.read_index_state().iter().map(|(k,_)| k.clone()).collect::<Vec<_>>(), cas.get(&"a".to_string())),
        Err(e) => println!("reopen FAILED: {e}"),
    }
    let cfg = Config { fail_on_integrity_errors: false, ..Config::default() };
    let cas = Cas::<String>::open(d.path(), cfg).unwrap();
    println!("lenient reopen; keys = {:?}; get(a) = {:?}", cas.read_index_state().iter().map(|(k,_)| k.clone()).collect::<Vec<_>>(), cas.get(&"a".to_string()).map(|o| o.map(|b| b.len())));
}
