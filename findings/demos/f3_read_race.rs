// F-3: get() vs overwrite race through the public API only.
use std::sync::atomic::{AtomicBool, Ordering};
use std::sync::Arc;
use cassadilia::{Cas, Config};
fn main() {
    let d = tempfile::tempdir().unwrap();
    let cas: Cas<String> = Cas::open(d.path(), Config::default()).unwrap();
    let k = "k".to_string();
    let mut tx = cas.put(k.clone()).unwrap(); tx.write(b"A-content").unwrap(); tx.finish().unwrap();
    let stop = Arc::new(AtomicBool::new(false));
    let w = { let cas = cas.clone(); let stop = stop.clone(); let k = k.clone();
        std::thread::spawn(move || { let mut i = 0u64; while !stop.load(Ordering::Relaxed) {
            let mut tx = cas.put(k.clone()).unwrap();
            tx.write(if i % 2 == 0 { b"B-content" } else { b"A-content" }).unwrap();
            tx.finish().unwrap(); i += 1; } i }) };
    let mut reads = 0u64; let mut err = None;
    let t0 = std::time::Instant::now();
    while t0.elapsed().as_secs() < 20 {
        match cas.get(&k) { Ok(Some(b)) => { assert!(&b[..] == b"A-content" || &b[..] == b"B-content"); reads += 1; }
            Ok(None) => { err = Some("ABSENT".to_string()); break; }
            Err(e) => { err = Some(format!("{e}")); break; } }
    }
    stop.store(true, Ordering::Relaxed); let writes = w.join().unwrap();
    println!("reads={reads} writes={writes} first_failure={err:?}");
}
