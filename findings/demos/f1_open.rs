use cassadilia::{Cas, Config};
fn main() {
    let dir = std::env::args().nth(1).unwrap();
    let mode = std::env::args().nth(2).unwrap();
    match mode.as_str() {
        "fill" => { let cas: Cas<u64> = Cas::open(&dir, Config::default()).unwrap();
            for i in 0..900u64 { let mut tx = cas.put(i).unwrap(); tx.write(b"x").unwrap(); tx.finish().unwrap(); } }
        "rr" => { let cas: Cas<u64> = Cas::open(&dir, Config::default()).unwrap(); println!("removed {}", cas.remove_range(0..900u64).unwrap()); }
        _ => match Cas::<u64>::open(&dir, Config::default()) { Ok(c) => println!("OPEN OK keys={}", c.read_index_state().len()), Err(e) => println!("OPEN FAILED: {e} / {e:?}") },
    }
}
