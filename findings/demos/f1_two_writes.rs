// F-1: one remove_range record > 8 KiB: how many write(2) calls hit the WAL?
use cassadilia::{Cas, Config};
fn main() {
    let dir = std::env::args().nth(1).unwrap();
    let cas: Cas<u64> = Cas::open(&dir, Config::default()).unwrap();
    for i in 0..900u64 { let mut tx = cas.put(i).unwrap(); tx.write(b"x").unwrap(); tx.finish().unwrap(); }
    eprintln!("MARK-BEFORE-REMOVE-RANGE");
    let n = cas.remove_range(0..900u64).unwrap();
    eprintln!("MARK-AFTER removed={n}");
}
